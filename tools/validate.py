#!/usr/bin/env python3
import json, sys, glob, jsonschema
ms = json.load(open('/root/.vp/MANIFEST.schema.json')); es = json.load(open('/root/.vp/EVIDENCE.schema.json'))
m = json.load(open('/verif/MANIFEST.json')); jsonschema.validate(m, ms)
bad = 0
for c in m['checks']:
    try:
        jsonschema.validate(json.load(open(c['evidence_file'])), es)
    except Exception as e:
        bad += 1; print('EVIDENCE INVALID', c['property_id'], str(e)[:200])
print('manifest valid;', len(m['checks']), 'checks;', bad, 'bad evidence files')
