#!/bin/bash
# tools/matrix_iso.sh [tier] [id-glob]  -- like matrix.sh but isolated: a copy of /verif under /tmp and one scratch worktree
# of /repo (MUX_REPO) to which each kept seeded patch is applied in turn; /repo and /verif are not touched, so it can run
# while work goes on. Only the detection step is run (the suite/demo confirmation is what tools/mutant.sh does).
set -u
SRC="$(cd "$(dirname "$0")/.." && pwd)"; TIER="${1:-quick}"; GLOB="${2:-*}"
export GOFLAGS=-mod=mod GOPROXY=off GOSUMDB=off GOTOOLCHAIN=local
ID=$$; WT=/tmp/wt-matrix-$ID; V=/tmp/verif-matrix-$ID
git -C /repo worktree add -q --detach "$WT" HEAD || exit 2
trap 'git -C /repo worktree remove --force "$WT" >/dev/null 2>&1; rm -rf "$V"' EXIT
mkdir -p "$V"; rsync -a --exclude bin --exclude work --exclude replays --exclude .git "$SRC/" "$V/"
miss=0; n=0
for d in "$V"/seeded/$GLOB/; do
  id=$(basename "$d"); prop=${id%%-*}; n=$((n+1))
  cw=$(jq -r '.check_with // empty' "$d/meta.json" 2>/dev/null); [ -n "$cw" ] && prop=$cw
  if ! git -C "$WT" apply "$d/patch.diff" 2>/dev/null; then echo "$id :: patch does not apply"; miss=$((miss+1)); continue; fi
  (cd "$V" && MUX_REPO="$WT" ./run.sh "$prop" "$TIER" > "$V/m.log" 2>&1); rc=$?
  git -C "$WT" checkout -q -- . ; git -C "$WT" clean -fdq
  if [ $rc -eq 1 ] && grep -q "^VIOLATION property=$prop " "$V/m.log"; then echo "$id :: caught_by $prop ($(grep -c '^VIOLATION' "$V/m.log") violations)"
  else echo "$id :: MISSED rc=$rc $(grep -E '^(INCONCLUSIVE|OK)' "$V/m.log" | head -1 | cut -c1-160)"; miss=$((miss+1)); fi
  rm -f "$V"/replays/*.json
done
echo "seed=${VERIF_SEED:-1} tier=$TIER changes=$n missed=$miss"
