#!/bin/bash
# tools/eval_round.sh <outdir> <Cxx/mN>...  -- evaluate seeded changes of a round against the check of their own property
cd "$(dirname "$0")/.." || exit 2
out=$1; shift
for d in "$@"; do
  prop=${d%%/*}
  [ -f "$out/$d/patch.diff" ] || { echo "$d :: missing patch"; continue; }
  [ -f "$out/$d/demo_dir" ] || echo . > "$out/$d/demo_dir"
  res=$(tools/mutant.sh "$out/$d" quick "$prop" 2>&1)
  echo "$d :: $(echo "$res" | grep '^MUTANT' | sed 's/.*: suite/suite/') :: $(echo "$res" | grep caught_by | sed 's/ *caught_by://') :: $(echo "$res" | grep -E '^  C[0-9]+ rc' | head -1 | cut -c1-170)"
done
