#!/usr/bin/env python3
"""tools/keep_seeded.py <Cxx/mN> <caught-by ...> -- copies a confirmed seeded change from /tmp/seed-out into /verif/seeded/."""
import json, os, shutil, sys, glob
NEEDS = json.load(open(os.path.join(os.path.dirname(__file__), 'seeded_needs.json')))
src = sys.argv[1]; caught = sys.argv[2:]
pid, m = src.split('/')
d = f'/verif/seeded/{pid}-{m}'
os.makedirs(d, exist_ok=True)
for f in ['patch.diff', 'README.md', 'demo_dir', 'demo_flags']:
    p = f'/tmp/seed-out/{src}/{f}'
    if os.path.exists(p): shutil.copy(p, d)
for p in glob.glob(f'/tmp/seed-out/{src}/demo_*_test.go'):
    shutil.copy(p, os.path.join(d, os.path.basename(p) + '.txt'))  # .txt: must never be compiled as part of /verif
meta = {
    'property': pid,
    'origin': 'independent sub-agent given only the property text and a scratch worktree',
    'needs_to_manifest': NEEDS.get(f'{pid}-{m}', 'see README.md'),
    'confirmed': 'tools/mutant.sh: in a scratch worktree the unedited suite passes with the patch, the demo fails with it and passes without it; then git -C /repo apply, checks run, git -C /repo checkout -- .',
    'caught_by': caught,
    'demo': 'demo_*_test.go.txt (place as demo_*_test.go in the directory named in demo_dir)',
}
json.dump(meta, open(os.path.join(d, 'meta.json'), 'w'), indent=1)
print('kept', d, 'caught by', caught)
