#!/usr/bin/env python3
"""Writes /verif/MANIFEST.json from the table below (kept in one place so the manifest stays valid)."""
import json, os, sys

HERE = os.path.dirname(os.path.dirname(os.path.abspath(__file__)))

# property -> (technique, level text, level note, design ref)
CHECKS = {
    "C01": ("runtime monitor at the CallFunc boundary: conformance walk + table model over generated Handle/Remove/Clean histories and hostile paths",
            "held on every dispatch observed: each CallFunc invocation is checked against an independent conformance walk (literals byte for byte, values accepted by their constraints, exact key set), the mirrored route table and handler identity; reach comes from generated tables/histories/paths, nothing is enumerated",
            "reference pattern parser and conformance walk (ref/pattern.go); table model mirrors only the engine's own calls; interceptors are the same Go functions on both sides",
            "DESIGN.md 4/C01"),
    "C02": ("runtime monitor: every dispatch compared with the admissible set of an executable reference resolver (no tree) over generated add-only tables x registration orders x paths",
            "held on every (table, order, path) observed: observed route+params must be a member of the reference resolver's admissible set, 404 iff that set is empty",
            "ref/resolve.go is the executable reading of the README rule; regexp rules restricted to the unambiguous family (greedy cases are directed known findings)",
            "DESIGN.md 4/C02"),
    "C03": ("runtime monitor over generated histories: table model + definite/maybe witness oracle + history clauses, probed after every step",
            "held on every history observed: after every Handle/Remove/Clean step Routes() equals the model, every probe is judged (reachability, kind priority among definite candidates, handler identity, 404 when nothing matches) and removals leave untouched probes unchanged",
            "witness values are digit strings and literals digit-free (unique decomposition); maybe-matches are conformance-checked but not priority-judged",
            "DESIGN.md 4/C03"),
    "C04": ("runtime monitor over generated histories: five views of each live pattern's method set and OPTIONS * compared with the table model after every step",
            "held on every step observed: Allow (written from the builder-captured node), Node().AllowHeader()/Methods() at dispatch, captured node Methods(), Routes() all equal the model's set; OPTIONS * lists exactly the live methods (+OPTIONS/TRACE, HEAD optional)",
            "table model mirrors the engine's own calls; sets compared, not strings",
            "DESIGN.md 4/C04"),
    "C05": ("fuzzing monitor: recover() around every public entry point in child processes, inputs written before the call; panics and nil-handler dispatches are the refuting events",
            "held on every input observed: arbitrary bytes as path/method/host/headers/pattern against post-history route tables, Groups, Hosts and version matchers; Handle vs CheckSyntax agreement",
            "the harness' own handlers never panic; a crash of the child process is attributed to the case on disk",
            "DESIGN.md 4/C05"),
    "C06": ("Go race detector + porcupine linearizability check of recorded client histories + reader-side assertions, in -race child processes with injected yields inside mux's critical sections",
            "held on the schedules observed: zero race reports/fatal errors, every per-pattern history linearizable against the sequential table model, untouched routes always served by their own handler, every workload made progress (no operation of any goroutine for 120 s = readers and writers block each other = violation); evidence counts overlapping read/write pairs",
            "schedules are sampled, not enumerated; Use is outside the concurrent mix; porcupine timeout => inconclusive; the 120 s progress bound and the 30 s bound of lock-free-after-root-requests are the only wall-clock values that decide",
            "DESIGN.md 4/C06"),
    "C07": ("Go race detector over parallel independent instances and a quiescent router + transcript comparison of fresh routers across unrelated prior activity (one child per script)",
            "held on the schedules/orders observed: zero race reports, per-request parameter isolation with pooled contexts, identical fresh-router transcripts whatever ran before",
            "schedules are sampled; pool reuse is observed through pointer identity, not forced",
            "DESIGN.md 4/C07"),
    "C08": ("runtime monitor with a wire-faithful ResponseWriter: HEAD vs GET on generated handler write programs; history monitor for HEAD-follows-GET and reserved methods",
            "held on every program/history observed: same status and sent headers (Content-Length aside), no body bytes, Content-Length = bytes written when the handler did not send the header itself; HEAD iff GET at every step; reserved/unknown methods rejected",
            "the recorder snapshots headers at the first WriteHeader/Write like net/http does; no sniffing",
            "DESIGN.md 4/C08"),
    "C09": ("runtime monitor: named middleware factories log their invocations, the CallFunc records the executed chain; compared with a list model over generated Use/Prefix/Resource/Handle/Group programs",
            "held on every program observed: executed chain equals the model's onion for every handler kind; each factory invoked exactly once per wrapped handler with the right (method, pattern, router)",
            "ref middleware model written from the property text",
            "DESIGN.md 4/C09"),
    "C10": ("runtime monitor: URL results compared with an independent substitution/validation model; round trip fed by dispatch",
            "held on every call observed: result = domain + substitution, error iff malformed/missing (non-strict) or additionally not live / value rejected over its whole length (strict); URL(pattern, captured) == path for dispatched routes",
            "ref/pattern.go Build and Accepts; malformed classes generated by construction",
            "DESIGN.md 4/C10"),
    "C11": ("runtime monitor: must-not clauses of a reference CORS decision table over the enumerated class product of configurations x requests, instantiated with random strings",
            "held on the complete class product and its random instances: ACAO only '*' when configured or the listed origin echoed; credentials only with an echoed origin; no ACAO on 404/405/refused preflights/unconfigured routers",
            "reference table written from the property text, not from options.go",
            "DESIGN.md 4/C11"),
    "C12": ("runtime monitor: must clauses of the same reference CORS decision table over the enumerated class product",
            "held on the complete class product and its random instances: exact ACAO/credentials/expose headers; preflight headers exactly on allowed preflights; Vary names the request headers the answer depended on",
            "only presence of the required Vary names is demanded",
            "DESIGN.md 4/C12"),
    "C13": ("runtime monitor (metamorphic + model): Group dispatch compared with the chosen router alone on the rewritten request, matcher algebra evaluated by a pure model",
            "held on every (group history, request) observed: first accepting router wins, rejections leave path/params untouched, group 404 carries the Group.Use chain, names unique, Remove effective",
            "pure matcher semantics in the engine; Hosts resolution by the C02 reference",
            "DESIGN.md 4/C13"),
    "C14": ("runtime monitor: Hosts.Match compared with a host normaliser + the C02 reference resolver over Add/Delete histories",
            "held on every (history, Host) observed: accept iff the normalised host resolves against the current domain set, params exactly that pattern's; Add/Delete case-insensitive; Delete leaves the rest matching",
            "after Delete the definite/maybe discipline of C03 is used; hosts \"\" and \"*\" excluded",
            "DESIGN.md 4/C14"),
    "C15": ("runtime monitor: version matchers compared with a direct model; deep comparison of request and params on reject",
            "held on every (version list, request) observed: accept iff prefix '/v/' of the first listed version (path) / parsed Accept parameter in list (header); rewrite exactly once; untouched on reject",
            "mime.ParseMediaType is the definitional parser for garbage Accept headers",
            "DESIGN.md 4/C15"),
    "C16": ("fault injection through user code: panic sites x panic values x containers enumerated completely, then random sequences; monitor counts RecoverFunc calls and checks later service",
            "held on the complete site x value x container product and on random sequences: nothing escapes with the option, the value arrives exactly once and unchanged, later requests are normal; without the option the identical value reaches the caller",
            "faults are injected only where user code runs (handlers, middlewares, CallFunc)",
            "DESIGN.md 4/C16"),
    "C17": ("runtime monitor over generated histories: snapshot comparison (Routes + probes + Allow) around every rejected Handle, accept/reject justified by the table model",
            "held on every Handle observed: a rejected call leaves every observation unchanged; duplicates and single-route twins always rejected; nothing rejected without justification",
            "a repeated method inside one list and a twin among several routes may go either way",
            "DESIGN.md 4/C17"),
    "C18": ("runtime monitor: TRACE dispatch and Allow sets over generated histories with/without WithTrace; wire-faithful check of the Trace helper against an oracle-built dump",
            "held on every history/request observed: configured handler on any path with only the Use chain, TRACE in every Allow set and not registrable; helper sends 200 + Content-Type message/http + escaped dump",
            "httputil.DumpRequest of an oracle-rebuilt request is the reference dump",
            "DESIGN.md 4/C18"),
    "C19": ("runtime monitor by co-execution: random facade program vs its translation into plain Router calls on two routers, all observations compared after every step",
            "held on every program observed: Routes(), probe battery (status, handler, params, middleware chain, Allow), URL results and panics agree step by step",
            "translation written from the property text (concatenated patterns and middleware lists)",
            "DESIGN.md 4/C19"),
    "C20": ("runtime monitor: every accessor compared with a Go map + strconv after each generated Set/Delete/Reset/Destroy/NewContext step",
            "held on every step observed: Count/Get/Exists/String/Range agree with the map, numeric accessors equal strconv (value and error class), Must* returns the default iff the strict form fails, pooled contexts start empty",
            "strconv is the definitional reference",
            "DESIGN.md 4/C20"),
}

NOT_YET = "check not built yet in this round (work in progress)"


def main():
    built = sys.argv[1:]  # property ids that have a working check
    if not built:
        built = json.load(open(os.path.join(HERE, "tools", "built.json")))
    else:
        json.dump(built, open(os.path.join(HERE, "tools", "built.json"), "w"))
    fixes = []
    try:
        for line in open(os.path.join(HERE, "known_findings.jsonl")):
            line = line.strip()
            if line.startswith("fixed:"):
                fixes.append(line.split()[2])
    except FileNotFoundError:
        pass
    checks = []
    for pid in sorted(CHECKS):
        if pid not in built:
            continue
        tech, text, note, ref = CHECKS[pid]
        checks.append({
            "property_id": pid,
            "quick_cmd": f"./run.sh {pid} quick",
            "thorough_cmd": f"./run.sh {pid} thorough",
            "evidence_file": f"/verif/evidence/{pid}.json",
            "replay_cmd_template": "./run.sh replay {path}",
            "engine": "vcheck" if pid not in ("C06", "C07") else "vstress",
            "level_claimed": {"category": "exploration" if pid not in ("C11", "C12", "C16") else "fault_enumeration" if pid == "C16" else "exploration",
                              "text": text, "design_ref": ref},
            "level_note": note,
            "technique": tech,
        })
    manifest = {
        "version": 1,
        "setup_cmd": "./run.sh build",
        "hooks": {
            "guard": "verif",
            "enable": "go build -tags verif (the harness module replaces github.com/issue9/mux/v9 with /repo; no source hook exists, every observation point is a user callback or the public API)",
            "baseline_off_cmd": "cd /repo && GOFLAGS=-mod=mod GOPROXY=off GOSUMDB=off go test -vet=off -count=1 ./...",
            "source_commits": [],
            "add_only": True,
        },
        "engines": [
            {"name": "vcheck", "path": "/verif/harness/cmd/vcheck", "serves_properties": [p for p in sorted(CHECKS) if p in built and p not in ("C06", "C07")],
             "kind_free_text": "Go harness (module verifharness, replace mux => /repo): seeded generators, independent reference models (ref/), recorders at the CallFunc boundary (mon/), per-property monitors (eng/); sharded child processes"},
            {"name": "vstress", "path": "/verif/harness/cmd/vcheck (built with -race)", "serves_properties": [p for p in ("C06", "C07") if p in built],
             "kind_free_text": "same binary built with the Go race detector; concurrent workloads in child processes, GORACE log parsing, porcupine history checking"},
        ],
        "checks": checks,
        "not_applicable": [{"property_id": p, "reason": NOT_YET} for p in sorted(CHECKS) if p not in built],
        "notes": "Technique family: runtime monitoring. Every check rebuilds the harness against /repo's current tree (run.sh), runs generated workloads in child processes and writes evidence/<id>.json. exit 0 held / 1 VIOLATION / 2 INCONCLUSIVE. known_findings.jsonl lists open findings (directed cases only) and fixed defects.",
    }
    json.dump(manifest, open(os.path.join(HERE, "MANIFEST.json"), "w"), indent=1, ensure_ascii=False)
    print("MANIFEST.json written:", len(checks), "checks,", len(manifest["not_applicable"]), "not applicable")


if __name__ == "__main__":
    main()
