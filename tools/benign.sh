#!/bin/bash
# tools/benign.sh <dir-with-patch.diff> [tier]  -- a property-preserving change: every check must stay silent.
# Confirms in a scratch worktree that the unedited suite passes with the patch, then applies it to /repo, runs
# every registered check, and undoes it. Prints the alarms (there should be none).
set -u
M="$(cd "$1" && pwd)"; TIER="${2:-quick}"
cd "$(dirname "$0")/.." || exit 2
export VERIF_EVIDENCE_DIR="$PWD/work/evidence-alt"   # evidence/ is for runs against the unchanged /repo only
export GOFLAGS=-mod=mod GOPROXY=off GOSUMDB=off GOTOOLCHAIN=local
WT=/tmp/wt-benign-$$
git -C /repo worktree add -q --detach "$WT" HEAD || exit 2
trap 'git -C /repo worktree remove --force "$WT" >/dev/null 2>&1' EXIT
git -C "$WT" apply "$M/patch.diff" || { echo "BENIGN $M: patch does not apply"; exit 2; }
suite=fail; (cd "$WT" && go build ./... && go test -vet=off -count=1 ./... > "$WT/suite.log" 2>&1) && suite=pass
echo "BENIGN $(basename "$(dirname "$M")")/$(basename "$M"): suite_with_patch=$suite"
[ -n "$(git -C /repo status --porcelain)" ] && { echo "/repo is not clean, refusing"; exit 2; }
git -C /repo apply "$M/patch.diff" || exit 2
alarms=0
for p in $(jq -r '.checks[].property_id' MANIFEST.json); do
  ./run.sh "$p" "$TIER" > "work/benign-$p.log" 2>&1; rc=$?
  if [ $rc -ne 0 ]; then
    alarms=$((alarms+1))
    echo "  ALARM $p rc=$rc: $(grep -E '^(VIOLATION|INCONCLUSIVE)' work/benign-$p.log | head -2 | cut -c1-330 | tr '\n' ' ')"
  fi
done
git -C /repo checkout -- .
echo "  alarms=$alarms"
