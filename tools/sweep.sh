#!/bin/bash
# tools/sweep.sh <tier> <seed>...   runs every registered check at the given seeds; prints one line per run
cd "$(dirname "$0")/.." || exit 2
tier=$1; shift; mkdir -p work
props=$(jq -r '.checks[].property_id' MANIFEST.json)
fail=0
for seed in "$@"; do
  for p in $props; do
    start=$(date +%s)
    VERIF_SEED=$seed ./run.sh $p $tier > work/sweep-$p-$seed.log 2>&1
    rc=$?
    echo "seed=$seed $p rc=$rc $(( $(date +%s) - start ))s $(grep -c '^VIOLATION' work/sweep-$p-$seed.log) violations; $(grep -E '^(INCONCLUSIVE|VIOLATION)' work/sweep-$p-$seed.log | head -2 | cut -c1-220 | tr '\n' ' ')"
    [ $rc -ne 0 ] && fail=1
  done
done
exit $fail
