#!/bin/bash
# tools/benign_iso.sh <dir-with-patch.diff> [tier]  -- like benign.sh but fully isolated: a copy of /verif under /tmp and a
# scratch worktree of /repo with the patch (MUX_REPO), so it can run while /repo is busy. Everything is removed afterwards.
set -u
M="$(cd "$1" && pwd)"; TIER="${2:-quick}"
SRC="$(cd "$(dirname "$0")/.." && pwd)"
export GOFLAGS=-mod=mod GOPROXY=off GOSUMDB=off GOTOOLCHAIN=local
ID=$$
WT=/tmp/wt-benign-$ID; V=/tmp/verif-benign-$ID
git -C /repo worktree add -q --detach "$WT" HEAD || exit 2
trap 'git -C /repo worktree remove --force "$WT" >/dev/null 2>&1; rm -rf "$V"' EXIT
git -C "$WT" apply "$M/patch.diff" || { echo "BENIGN $M: patch does not apply"; exit 2; }
suite=fail; (cd "$WT" && go build ./... && go test -vet=off -count=1 ./... > "$WT/suite.log" 2>&1) && suite=pass
echo "BENIGN $(basename "$(dirname "$M")")/$(basename "$M"): suite_with_patch=$suite"
mkdir -p "$V"; rsync -a --exclude bin --exclude work --exclude replays --exclude .git --exclude seeded "$SRC/" "$V/"
alarms=0
for p in $(jq -r '.checks[].property_id' "$V/MANIFEST.json"); do
  (cd "$V" && MUX_REPO="$WT" ./run.sh "$p" "$TIER" > "$V/benign-$p.log" 2>&1); rc=$?
  if [ $rc -ne 0 ]; then
    alarms=$((alarms+1))
    echo "  ALARM $p rc=$rc: $(grep -E '^(VIOLATION|INCONCLUSIVE)' "$V/benign-$p.log" | head -2 | cut -c1-330 | tr '\n' ' ')"
    mkdir -p "$SRC/work/benign-alarms"; cp "$V"/replays/$p-*.json "$SRC/work/benign-alarms/" 2>/dev/null
  fi
done
echo "  alarms=$alarms"
