#!/bin/bash
# tools/try.sh <round-dir> <Cxx/mN>... [-- seeds]  -- quick detection try of raw agent output against the current harness, in a scratch worktree (no confirmation step)
cd "$(dirname "$0")/.." || exit 2
R=$1; shift; mkdir -p work
export GOFLAGS=-mod=mod GOPROXY=off GOSUMDB=off GOTOOLCHAIN=local
WT=/tmp/wt-try-$$
git -C /repo worktree add -q --detach "$WT" HEAD || exit 2
trap 'git -C /repo worktree remove --force "$WT" >/dev/null 2>&1' EXIT
for m in "$@"; do
  p=${m%%/*}; p=${p%%-*}; [ -n "${PROP:-}" ] && p=$PROP
  f="$R/$m/patch.diff"
  if [ "$m" = clean ]; then p=$CLEAN_PROP; else git -C "$WT" apply "$f" || { echo "$m: patch does not apply"; continue; }; fi
  MUX_REPO="$WT" ./run.sh "$p" "${TIER:-quick}" > work/try-$$.log 2>&1; rc=$?
  echo "$m rc=$rc $(grep -cE '^VIOLATION' work/try-$$.log) violations :: $(grep -E '^(VIOLATION|INCONCLUSIVE)' work/try-$$.log | head -1 | cut -c1-230)"
  git -C "$WT" checkout -q -- .; git -C "$WT" clean -fdq
done
