#!/bin/bash
# tools/mutant.sh <mutant-dir> [tier] [props...]
#   <mutant-dir> holds patch.diff and demo_*_test.go (+ a file "demo_dir" naming the module directory for the demo, default ".")
# 1. confirms in a scratch worktree (outside /repo and /verif) that the suite passes with the patch, the demo fails with it and passes without it;
# 2. applies the patch to /repo, runs the given checks (default: all, quick), undoes the patch straight afterwards;
# prints one summary line per step; exit 0 if at least one check reported a VIOLATION.
set -u
M="$(cd "$1" && pwd)"; shift
TIER="${1:-quick}"; [ $# -gt 0 ] && shift
cd "$(dirname "$0")/.." || exit 2
VERIF=$(pwd)
PROPS="$*"
[ -z "$PROPS" ] && PROPS=$(jq -r '.checks[].property_id' MANIFEST.json)
export GOFLAGS=-mod=mod GOPROXY=off GOSUMDB=off GOTOOLCHAIN=local
DEMO_DIR="."; [ -f "$M/demo_dir" ] && DEMO_DIR=$(cat "$M/demo_dir")
DEMO=$(ls "$M"/demo_*_test.go 2>/dev/null | head -1)
if [ -z "$DEMO" ] && ls "$M"/demo_*_test.go.txt >/dev/null 2>&1; then # kept copies carry a .txt suffix so that they are never compiled
  mkdir -p /tmp/demo-$$; for f in "$M"/demo_*_test.go.txt; do cp "$f" "/tmp/demo-$$/$(basename "${f%.txt}")"; done
  DEMO=$(ls /tmp/demo-$$/demo_*_test.go | head -1)
fi
DEMO_FLAGS=""; [ -f "$M/demo_flags" ] && DEMO_FLAGS=$(cat "$M/demo_flags")

WT=/tmp/wt-verify-$$
export VERIF_EVIDENCE_DIR="$PWD/work/evidence-alt"   # evidence/ is for runs against the unchanged /repo only
git -C /repo worktree add -q --detach "$WT" HEAD || exit 2
cleanup() { git -C /repo worktree remove --force "$WT" >/dev/null 2>&1; rm -rf /tmp/demo-$$; }
trap cleanup EXIT

suite_with=fail; demo_with=pass; demo_without=fail
if [ -n "$DEMO" ]; then
  cp "$DEMO" "$WT/$DEMO_DIR/"
  (cd "$WT/$DEMO_DIR" && go test -vet=off -count=1 $DEMO_FLAGS -run 'Demo|demo|Mutant|M[0-9]' . > "$WT/demo_without.log" 2>&1) && demo_without=pass
  rm -f "$WT/$DEMO_DIR/$(basename "$DEMO")"
fi
if ! git -C "$WT" apply "$M/patch.diff"; then echo "MUTANT $M: patch does not apply"; exit 2; fi
(cd "$WT" && go build ./... && go test -vet=off -count=1 ./... > "$WT/suite.log" 2>&1) && suite_with=pass
if [ -n "$DEMO" ]; then
  cp "$DEMO" "$WT/$DEMO_DIR/"
  (cd "$WT/$DEMO_DIR" && go test -vet=off -count=1 $DEMO_FLAGS -run 'Demo|demo|Mutant|M[0-9]' . > "$WT/demo_with.log" 2>&1) || demo_with=fail
fi
echo "MUTANT $(basename "$(dirname "$M")")/$(basename "$M"): suite_with_patch=$suite_with demo_with_patch=$demo_with demo_without_patch=$demo_without"
if [ "$suite_with" != pass ]; then tail -5 "$WT/suite.log"; fi

# run the checks against /repo with the patch applied (MUTANT_ISO=1: against the scratch worktree instead, through MUX_REPO,
# so that /repo stays untouched and several evaluations can run side by side)
caught=""
mkdir -p work
if [ -n "${MUTANT_ISO:-}" ]; then
  rm -f "$WT/$DEMO_DIR/$(basename "${DEMO:-none}")" "$WT"/*.log
else
  if [ -n "$(git -C /repo status --porcelain)" ]; then echo "/repo is not clean, refusing"; exit 2; fi
  git -C /repo apply "$M/patch.diff" || exit 2
fi
for p in $PROPS; do
  if [ -n "${MUTANT_ISO:-}" ]; then
    MUX_REPO="$WT" ./run.sh "$p" "$TIER" > "work/mutant-$p.log" 2>&1
  else
    ./run.sh "$p" "$TIER" > "work/mutant-$p.log" 2>&1
  fi
  rc=$?
  if grep -q '^VIOLATION' "work/mutant-$p.log"; then
    caught="$caught $p"
    echo "  $p rc=$rc: $(grep '^VIOLATION' work/mutant-$p.log | head -1 | cut -c1-260)"
  elif [ $rc -ne 0 ]; then
    echo "  $p rc=$rc: $(grep -E '^INCONCLUSIVE' work/mutant-$p.log | head -1 | cut -c1-200)"
  fi
done
[ -n "${MUTANT_ISO:-}" ] || git -C /repo checkout -- .
echo "  caught_by:${caught:- NONE}"
[ -n "$caught" ]
