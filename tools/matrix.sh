#!/bin/bash
# tools/matrix.sh [tier]  -- every kept seeded change against the check of its own property; prints one line each
cd "$(dirname "$0")/.." || exit 2
tier=${1:-quick}
miss=0
for d in seeded/*/; do
  id=$(basename "$d"); prop=${id%%-*}
  out=$(tools/mutant.sh "$d" "$tier" "$prop" 2>&1)
  line=$(echo "$out" | grep '^MUTANT' | sed 's/^MUTANT //')
  caught=$(echo "$out" | grep 'caught_by' | sed 's/.*caught_by://')
  echo "$id :: $line :: caught_by$caught"
  echo "$caught" | grep -q NONE && miss=$((miss+1))
done
echo "missed=$miss"
