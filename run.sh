#!/bin/bash
# Wrapper named in MANIFEST.json:  ./run.sh <property> [quick|thorough]   |   ./run.sh replay <file>   |  ./run.sh build
# Rebuilds the harness against /repo's CURRENT working tree (go.mod: replace github.com/issue9/mux/v9 => /repo)
# with the hook guard on (-tags verif), then runs the check. exit 0 held / 1 violation / 2 inconclusive.
set -u
VERIF_DIR="$(cd "$(dirname "${BASH_SOURCE[0]}")" && pwd)"
export VERIF_DIR
export GOFLAGS=-mod=mod GOPROXY=off GOSUMDB=off GOTOOLCHAIN=local CGO_ENABLED=1
cd "$VERIF_DIR/harness" || exit 2
mkdir -p "$VERIF_DIR/bin" "$VERIF_DIR/work"
# coverage probe: the compiler instruments mux's packages (the main package has to be listed for the counters to be written)
export GOCOVERDIR="$VERIF_DIR/work/cov-parent"; mkdir -p "$GOCOVERDIR"
COVERPKG=verifharness/cmd/vcheck,github.com/issue9/mux/v9,github.com/issue9/mux/v9/internal/tree,github.com/issue9/mux/v9/internal/syntax,github.com/issue9/mux/v9/internal/trace,github.com/issue9/mux/v9/types

# MUX_REPO (default /repo) is only used by background sweeps that run against a snapshot of /repo's HEAD
# (vp run --with-repo): the module file is copied with the replace directive pointing there. The commands
# registered in MANIFEST.json never set it, so they always build against /repo's current working tree.
MODFLAG=()
if [ -n "${MUX_REPO:-}" ] && [ "$MUX_REPO" != "/repo" ]; then
  sed "s|=> /repo|=> $MUX_REPO|" go.mod > "$VERIF_DIR/work/go.alt.mod"; cp go.sum "$VERIF_DIR/work/go.alt.sum"
  MODFLAG=("-modfile=$VERIF_DIR/work/go.alt.mod")
  # evidence/ describes runs against /repo itself; a run against anything else writes its evidence under work/
  export VERIF_EVIDENCE_DIR="${VERIF_EVIDENCE_DIR:-$VERIF_DIR/work/evidence-alt}"
fi

build() { # $1 = output name, rest = extra flags
  local out="$1"; shift
  if ! go build "${MODFLAG[@]}" -tags verif "$@" -o "$VERIF_DIR/bin/$out" ./cmd/vcheck > "$VERIF_DIR/work/build-$out.log" 2>&1; then
    echo "INCONCLUSIVE build of the harness against /repo failed (see work/build-$out.log)"
    tail -n 20 "$VERIF_DIR/work/build-$out.log"
    exit 2
  fi
}

case "${1:-}" in
  build)
    build vcheck -cover -covermode=atomic "-coverpkg=$COVERPKG"; build vstress -race; exit 0 ;;
  replay)
    build vcheck -cover -covermode=atomic "-coverpkg=$COVERPKG"; build vstress -race
    prop=$(jq -r .property "$2")
    case "$prop" in C06|C07) exec "$VERIF_DIR/bin/vstress" replay "$2" ;; *) exec "$VERIF_DIR/bin/vcheck" replay "$2" ;; esac ;;
  C06|C07)
    build vstress -race
    exec "$VERIF_DIR/bin/vstress" run -prop "$1" -tier "${2:-${VERIF_TIER:-quick}}" ;;
  C*)
    build vcheck -cover -covermode=atomic "-coverpkg=$COVERPKG"
    exec "$VERIF_DIR/bin/vcheck" run -prop "$1" -tier "${2:-${VERIF_TIER:-quick}}" ;;
  *)
    echo "usage: run.sh <property> [quick|thorough] | replay <file> | build"; exit 2 ;;
esac
