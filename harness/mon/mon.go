// Package mon holds the recorders that sit at mux's observation boundary:
// the handler type T = *Hnd, the CallFunc, the OPTIONS/405 builders, the
// named middleware factories and a wire-faithful ResponseWriter.
package mon

import (
	"bytes"
	"context"
	"fmt"
	"net/http"
	"net/url"
	"sort"
	"strings"
	"sync"
	"sync/atomic"

	"github.com/issue9/mux/v9"
	"github.com/issue9/mux/v9/types"
)

// Handler kinds.
const (
	KRoute    = "route"
	KOptions  = "options"
	K405      = "405"
	K404      = "404"
	KTrace    = "trace"
	KGroup404 = "group404"
)

// Hnd is the handler type T the harness instantiates mux with. The router
// never looks inside it, so the identity the CallFunc receives is exactly the
// router's decision.
type Hnd struct {
	ID      int64
	Kind    string
	Pattern string     // route: pattern given to Handle; options/405: pattern of the node given to the builder
	Node    types.Node // options/405: node object the builder received
	Env     *Env

	// middleware wrapping
	Next  *Hnd     // the handler this one wraps (nil for a base handler)
	Base  *Hnd     // innermost handler (self for a base handler)
	Chain []string // middleware names, outermost first
	// arguments the factory that made this layer was invoked with
	MWMethod, MWPattern, MWRouter string

	Prog  *Prog        // optional write program (C08)
	Panic *PanicSpec   // optional fault injection (C16)
	Run   func(w http.ResponseWriter, r *http.Request, h *Hnd) // optional custom behaviour
	Runs  atomic.Int64 // how often the base handler ran
}

func (h *Hnd) String() string {
	if h == nil {
		return "<nil>"
	}
	return fmt.Sprintf("h%d(%s %s)", h.Base.ID, h.Base.Kind, h.Base.Pattern)
}

type PanicSpec struct {
	Value any
	// Layer: "" = in the base handler; otherwise the middleware name at which to panic
	Layer string
	After bool // panic after calling next instead of before
}

// MWCall is one invocation of a middleware factory.
type MWCall struct {
	Name, Method, Pattern, Router string
	NextID                        int64 // ID of the handler object it was given
	NextBase                      int64
	NextKind                      string
	OutID                         int64
}

// BuilderCall is one invocation of an OPTIONS/405 builder.
type BuilderCall struct {
	Kind    string
	Pattern string
	H       *Hnd
}

// Env is the shared environment of one monitored system (router, group...).
type Env struct {
	ids      atomic.Int64
	mu       sync.Mutex
	MWCalls  []MWCall
	Builders []BuilderCall
	// hooks called inside user callbacks (which run inside mux's critical sections)
	OnBuilder    func()
	OnMiddleware func()
	OnCall       func()
	OnCallRoute  func(rt types.Route, h *Hnd) // sees the Route value the CallFunc received (before the handler runs)
	RecordMW     bool
	NotFoundOf   map[string]*Hnd // router name -> its not-found handler
	Group404     *Hnd

	// Siblings: NewRouter builds the router with Group.New inside an option-less group, between two decoy routers of
	// the same group that carry every option with the opposite meaning (see DecoyOptions). A router made by Group.New
	// with its own options must behave exactly like a stand-alone one.
	Siblings bool
	inDecoy  atomic.Int32
}

// Hostile-sibling containers: one Env in four (chosen from the case salt, so a replayed case builds the same way).
var (
	caseSalt atomic.Uint64
	envSeq   atomic.Uint64
	// DecoyRules are rule texts the decoy siblings register as interceptors (set by the engines from the pattern pools).
	DecoyRules []string
	// SiblingsOneIn: 0 disables the containers.
	SiblingsOneIn uint64 = 4
)

// SiblingRouters counts routers built inside a hostile container (reported as a workload class).
var SiblingRouters atomic.Int64

// Coin is a reproducible 1-in-n decision tied to the case (salt) and to how many decisions were taken before it.
func Coin(n uint64) bool { return mix(caseSalt.Load()^0x5bd1e995+coinSeq.Add(1))%n == 0 }

var coinSeq atomic.Uint64

func SetCaseSalt(s uint64) {
	coinSeq.Store(0)
	caseSalt.Store(s); envSeq.Store(0) }

func mix(x uint64) uint64 {
	x += 0x9e3779b97f4a7c15
	x = (x ^ (x >> 30)) * 0xbf58476d1ce4e5b9
	x = (x ^ (x >> 27)) * 0x94d049bb133111eb
	return x ^ (x >> 31)
}

func NewEnv() *Env {
	e := &Env{RecordMW: true}
	if n := SiblingsOneIn; n > 0 {
		e.Siblings = mix(caseSalt.Load()+envSeq.Add(1))%n == 0
	}
	return e
}

// DecoyOptions are the options of the decoy siblings: interceptors that accept everything for every rule text the
// pools use (as interceptor or as regexp), another TRACE handler, any-origin CORS, another URL domain, a recovery
// function that swallows panics, and the lock.
func (e *Env) DecoyOptions() []mux.Option {
	o := []mux.Option{
		mux.WithTrace(e.NewHnd(KTrace, "decoy")),
		mux.WithCORS([]string{"*"}, []string{"*"}, []string{"X-Decoy"}, 77, false),
		mux.WithURLDomain("https://decoy.example"),
		mux.WithRecovery(func(w http.ResponseWriter, v any) { w.WriteHeader(299) }),
		mux.WithLock(true),
	}
	if len(DecoyRules) > 0 {
		o = append(o, mux.WithInterceptor(func(string) bool { return true }, DecoyRules...))
	}
	return o
}

func (e *Env) NextID() int64 { return e.ids.Add(1) }

func (e *Env) NewHnd(kind, pattern string) *Hnd {
	h := &Hnd{ID: e.NextID(), Kind: kind, Pattern: pattern, Env: e}
	h.Base = h
	return h
}

func (e *Env) OptionsBuilder(n types.Node) *Hnd {
	if e.OnBuilder != nil {
		e.OnBuilder()
	}
	h := e.NewHnd(KOptions, "")
	h.Node = n
	if n != nil {
		h.Pattern = n.Pattern()
	}
	if e.inDecoy.Load() == 0 {
		e.mu.Lock()
		e.Builders = append(e.Builders, BuilderCall{KOptions, h.Pattern, h})
		e.mu.Unlock()
	}
	return h
}

func (e *Env) M405Builder(n types.Node) *Hnd {
	if e.OnBuilder != nil {
		e.OnBuilder()
	}
	h := e.NewHnd(K405, "")
	h.Node = n
	if n != nil {
		h.Pattern = n.Pattern()
	}
	if e.inDecoy.Load() == 0 {
		e.mu.Lock()
		e.Builders = append(e.Builders, BuilderCall{K405, h.Pattern, h})
		e.mu.Unlock()
	}
	return h
}

// MW is a named middleware factory.
type MW struct {
	Name string
	Env  *Env
}

func (e *Env) MW(name string) *MW { return &MW{Name: name, Env: e} }

func (m *MW) Middleware(next *Hnd, method, pattern, router string) *Hnd {
	e := m.Env
	if e.OnMiddleware != nil {
		e.OnMiddleware()
	}
	out := &Hnd{ID: e.NextID(), Env: e, Next: next, MWMethod: method, MWPattern: pattern, MWRouter: router}
	call := MWCall{Name: m.Name, Method: method, Pattern: pattern, Router: router, OutID: out.ID, NextID: -1, NextBase: -1}
	if next != nil {
		out.Kind, out.Pattern, out.Node, out.Base = next.Kind, next.Pattern, next.Node, next.Base
		out.Chain = append(append(make([]string, 0, len(next.Chain)+1), m.Name), next.Chain...)
		call.NextID, call.NextBase, call.NextKind = next.ID, next.Base.ID, next.Base.Kind
	} else {
		out.Kind, out.Base = "wrapped-nil", out
		out.Chain = []string{m.Name}
	}
	if e.RecordMW {
		e.mu.Lock()
		e.MWCalls = append(e.MWCalls, call)
		e.mu.Unlock()
	}
	return out
}

func (e *Env) TakeMWCalls() []MWCall {
	e.mu.Lock()
	defer e.mu.Unlock()
	c := e.MWCalls
	e.MWCalls = nil
	return c
}

// Obs is what the monitor saw for one request.
type Obs struct {
	Calls       int // CallFunc invocations for this request
	H           *Hnd
	NilHandler  bool
	NodeNil     bool
	NodePattern string
	NodeMethods []string
	NodeAllow   string
	Node        types.Node
	Params      map[string]string
	ParamsBad   string // disagreement between Count/Get/Range
	RouterName  string
	Path        string // r.URL.Path as the CallFunc saw it
	Method      string
	Route       types.Route

	Status int
	Header http.Header // as sent (snapshot at first WriteHeader/Write)
	Body   []byte
	Live   http.Header // header map after ServeHTTP returned
	Panic  any
	Panicked bool
}

type obsKey struct{}

// Call is the CallFunc given to every router of the harness.
func (e *Env) Call(w http.ResponseWriter, r *http.Request, rt types.Route, h *Hnd) {
	if o, _ := r.Context().Value(obsKey{}).(*Obs); o != nil {
		o.Calls++
		o.H = h
		o.Route = rt
		o.Path = r.URL.Path
		o.Method = r.Method
		o.RouterName = rt.RouterName()
		n := rt.Node()
		o.Node = n
		if n == nil {
			o.NodeNil = true
		} else {
			o.NodePattern = n.Pattern()
			o.NodeMethods = append([]string(nil), n.Methods()...)
			o.NodeAllow = n.AllowHeader()
		}
		ps := rt.Params()
		o.Params = map[string]string{}
		cnt := 0
		ps.Range(func(k, v string) {
			cnt++
			o.Params[k] = v
			if g, ok := ps.Get(k); !ok || g != v {
				o.ParamsBad = "Range/Get disagree on " + k
			}
			if !ps.Exists(k) {
				o.ParamsBad = "Range/Exists disagree on " + k
			}
		})
		if cnt != ps.Count() || cnt != len(o.Params) {
			o.ParamsBad = fmt.Sprintf("Count=%d Range=%d", ps.Count(), cnt)
		}
	}
	if e.OnCall != nil {
		e.OnCall()
	}
	if e.OnCallRoute != nil {
		e.OnCallRoute(rt, h)
	}
	if h == nil {
		if o, _ := r.Context().Value(obsKey{}).(*Obs); o != nil {
			o.NilHandler = true
		}
		return
	}
	h.Serve(w, r)
}

// Serve executes the handler chain: middlewares outermost first, then the base.
func (h *Hnd) Serve(w http.ResponseWriter, r *http.Request) {
	if h.Next != nil { // a middleware layer
		name := h.Chain[0]
		ps := h.Base.Panic
		if tr, _ := r.Context().Value(traceKey{}).(*[]string); tr != nil {
			*tr = append(*tr, name)
		}
		if ps != nil && ps.Layer == name && !ps.After {
			panic(ps.Value)
		}
		h.Next.Serve(w, r)
		if ps != nil && ps.Layer == name && ps.After {
			panic(ps.Value)
		}
		return
	}
	b := h
	b.Runs.Add(1)
	if b.Panic != nil && b.Panic.Layer == "" {
		panic(b.Panic.Value)
	}
	if b.Run != nil {
		b.Run(w, r, b)
		return
	}
	switch b.Kind {
	case KRoute:
		if b.Prog != nil {
			b.Prog.Exec(w)
			return
		}
		w.Header().Set("X-Handler", fmt.Sprint(b.ID))
		w.Write([]byte("ok"))
	case KOptions:
		if b.Node != nil {
			w.Header().Set("Allow", b.Node.AllowHeader())
		}
		w.WriteHeader(http.StatusOK)
	case K405:
		if b.Node != nil {
			w.Header().Set("Allow", b.Node.AllowHeader())
		}
		w.WriteHeader(http.StatusMethodNotAllowed)
	case K404, KGroup404:
		w.WriteHeader(http.StatusNotFound)
	case KTrace:
		w.Header().Set("X-Trace", "1")
		w.WriteHeader(http.StatusOK)
	default:
		w.WriteHeader(599)
	}
}

type traceKey struct{}

// RW is a wire-faithful ResponseWriter: headers are snapshotted at the moment
// they would be sent; it never sniffs and never adds headers of its own.
type RW struct {
	H      http.Header
	Snap   http.Header
	Status int
	Wrote  bool
	Body   bytes.Buffer
	Writes int
}

func NewRW() *RW { return &RW{H: http.Header{}} }

func (w *RW) Header() http.Header { return w.H }

func (w *RW) WriteHeader(code int) {
	if w.Wrote {
		return
	}
	w.Wrote = true
	w.Status = code
	w.Snap = w.H.Clone()
}

func (w *RW) Write(b []byte) (int, error) {
	if !w.Wrote {
		w.WriteHeader(http.StatusOK)
	}
	w.Writes++
	return w.Body.Write(b)
}

func (w *RW) Finish() {
	if !w.Wrote {
		w.WriteHeader(http.StatusOK)
	}
}

// Req describes a request by its raw parts; arbitrary bytes are allowed
// everywhere because the http.Request struct is built by hand.
type Req struct {
	Method string
	Path   string
	Host   string
	Header map[string]string
	Body   string
}

func (q Req) String() string {
	return fmt.Sprintf("%q %q host=%q hdr=%v", q.Method, q.Path, q.Host, q.Header)
}

func (q Req) Build(o *Obs, trace *[]string) *http.Request {
	r := &http.Request{
		Method:     q.Method,
		URL:        &url.URL{Path: q.Path},
		Proto:      "HTTP/1.1",
		ProtoMajor: 1, ProtoMinor: 1,
		Header: http.Header{},
		Host:   q.Host,
		Body:   http.NoBody,
	}
	if raw := rawSpelling(q.Path); raw != "" {
		r.URL.RawPath = raw
	}
	if q.Body != "" {
		r.Body = nopCloser{strings.NewReader(q.Body)}
		r.ContentLength = int64(len(q.Body))
	}
	for k, v := range q.Header {
		r.Header.Set(k, v)
	}
	ctx := context.WithValue(context.Background(), obsKey{}, o)
	if trace != nil {
		ctx = context.WithValue(ctx, traceKey{}, trace)
	}
	return r.WithContext(ctx)
}

// rawSpelling is what net/http puts into URL.RawPath when the client spelled the request target with percent-escapes
// it did not have to use (%41 for A, %2F for a slash inside a value): Path holds the decoded bytes, RawPath the
// spelling as sent. About half of the paths get one (decided by the path itself, so a replay builds the same request);
// the router works on Path, so nothing may depend on it.
func rawSpelling(path string) string {
	if path == "" || path == "*" {
		return ""
	}
	h := 0
	for i := 0; i < len(path); i++ {
		h = h*31 + int(path[i])
	}
	if h&1 == 0 {
		return ""
	}
	const hex = "0123456789ABCDEF"
	var b strings.Builder
	changed := false
	for i := 0; i < len(path); i++ {
		c := path[i]
		alnum := c >= '0' && c <= '9' || c >= 'a' && c <= 'z' || c >= 'A' && c <= 'Z'
		must := c <= ' ' || c >= 0x7f || strings.IndexByte("%?#\"<>[]^`{|}", c) >= 0
		opt := (alnum || c == '/' && i > 0 || c == '.' || c == '-') && (i+h)%3 == 0
		if must || opt {
			b.WriteByte('%')
			b.WriteByte(hex[c>>4])
			b.WriteByte(hex[c&15])
			changed = changed || opt
		} else {
			b.WriteByte(c)
		}
	}
	if !changed {
		return ""
	}
	return b.String()
}

type nopCloser struct{ *strings.Reader }

func (nopCloser) Close() error { return nil }

// Do sends one request through an http.Handler and returns the observation.
// Panics are recovered and recorded (the caller decides what they mean).
func Do(h http.Handler, q Req) (o *Obs) {
	o = &Obs{}
	w := NewRW()
	r := q.Build(o, nil)
	defer func() {
		if p := recover(); p != nil {
			o.Panicked, o.Panic = true, p
		}
		w.Finish()
		o.Status, o.Header, o.Body, o.Live = w.Status, w.Snap, w.Body.Bytes(), w.H
	}()
	h.ServeHTTP(w, r)
	return o
}

// DoTrace is Do plus the run-time trace of middleware names.
func DoTrace(h http.Handler, q Req) (*Obs, []string) {
	o := &Obs{}
	var tr []string
	w := NewRW()
	r := q.Build(o, &tr)
	func() {
		defer func() {
			if p := recover(); p != nil {
				o.Panicked, o.Panic = true, p
			}
			w.Finish()
			o.Status, o.Header, o.Body, o.Live = w.Status, w.Snap, w.Body.Bytes(), w.H
		}()
		h.ServeHTTP(w, r)
	}()
	return o, tr
}

// NewRouter builds a router of the harness' handler type.
func (e *Env) NewRouter(name string, o ...mux.Option) *mux.Router[*Hnd] {
	nf := e.NewHnd(K404, "")
	e.mu.Lock()
	if e.NotFoundOf == nil {
		e.NotFoundOf = map[string]*Hnd{}
	}
	e.NotFoundOf[name] = nf
	e.mu.Unlock()
	if !e.Siblings {
		return mux.NewRouter[*Hnd](name, e.Call, nf, e.M405Builder, e.OptionsBuilder, o...)
	}
	g := mux.NewGroup[*Hnd](e.Call, nf, e.M405Builder, e.OptionsBuilder)
	never := mux.MatcherFunc(func(*http.Request, *types.Context) bool { return false })
	decoy := func(n string) {
		e.inDecoy.Add(1)
		defer e.inDecoy.Add(-1)
		d := g.New(n, never, e.DecoyOptions()...)
		d.Handle("/decoy/{id}", e.NewHnd(KRoute, "/decoy/{id}"), nil, "GET", "POST")
	}
	SiblingRouters.Add(1)
	decoy(name + "-decoy-before")
	// the options themselves must build a stand-alone router (a panic here is the caller's business and propagates as it is)
	e.inDecoy.Add(1)
	func() {
		defer e.inDecoy.Add(-1)
		mux.NewRouter[*Hnd](name, e.Call, nf, e.M405Builder, e.OptionsBuilder, o...)
	}()
	var r *mux.Router[*Hnd]
	func() {
		defer func() {
			if p := recover(); p != nil {
				panic(fmt.Sprintf("Group.New(%q) with the router's own options panicked although the same options build a stand-alone router; a sibling router of the group was created before with other options (leaked?): %v", name, p))
			}
		}()
		r = g.New(name, nil, o...)
	}()
	decoy(name + "-decoy-after")
	return r
}

func (e *Env) NewGroup(o ...mux.Option) *mux.Group[*Hnd] {
	e.Group404 = e.NewHnd(KGroup404, "")
	return mux.NewGroup[*Hnd](e.Call, e.Group404, e.M405Builder, e.OptionsBuilder, o...)
}

// AllowSet splits an Allow-style header into a sorted, de-duplicated set.
func AllowSet(v string) []string {
	var out []string
	for _, p := range strings.Split(v, ",") {
		p = strings.TrimSpace(p)
		if p != "" {
			out = append(out, p)
		}
	}
	sort.Strings(out)
	return out
}

func SortedCopy(xs []string) []string {
	c := append([]string(nil), xs...)
	sort.Strings(c)
	return c
}

func EqualSets(a, b []string) bool {
	if len(a) != len(b) {
		return false
	}
	for i := range a {
		if a[i] != b[i] {
			return false
		}
	}
	return true
}
