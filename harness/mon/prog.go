package mon

import (
	"fmt"
	"io"
	"net/http"
	"strings"
)

// Step is one action of a handler write program.
type Step struct {
	Op   string // "set", "add", "del", "status", "write"
	Key  string
	Val  string
	Code int
	N    int
}

func (s Step) String() string {
	switch s.Op {
	case "set", "add":
		return fmt.Sprintf("%s(%s=%s)", s.Op, s.Key, s.Val)
	case "del":
		return "del(" + s.Key + ")"
	case "edit":
		return fmt.Sprintf("Header()[%s][0]=%s", s.Key, s.Val)
	case "status":
		return fmt.Sprintf("WriteHeader(%d)", s.Code)
	case "panic":
		return "panic"
	default:
		if s.Val != "" {
			return fmt.Sprintf("io.WriteString(%q)", s.Val)
		}
		return fmt.Sprintf("Write(%d)", s.N)
	}
}

// Prog is a handler behaviour: a sequence of header mutations, WriteHeader and Write calls.
type Prog struct{ Steps []Step }

func (p *Prog) String() string {
	ss := make([]string, len(p.Steps))
	for i, s := range p.Steps {
		ss[i] = s.String()
	}
	return strings.Join(ss, ";")
}

func (p *Prog) Exec(w http.ResponseWriter) {
	for _, s := range p.Steps {
		switch s.Op {
		case "set":
			w.Header().Set(s.Key, s.Val)
		case "add":
			w.Header().Add(s.Key, s.Val)
		case "del":
			w.Header().Del(s.Key)
		case "edit": // in place: the value slice stays the same object
			if vs := w.Header()[http.CanonicalHeaderKey(s.Key)]; len(vs) > 0 {
				vs[0] = s.Val
			}
		case "status":
			w.WriteHeader(s.Code)
		case "write":
			if s.Val != "" { // text, written the way fmt.Fprint / io.WriteString / template execution do it
				io.WriteString(w, s.Val)
			} else {
				w.Write(make([]byte, s.N))
			}
		case "panic":
			panic("program panics")
		}
	}
}
