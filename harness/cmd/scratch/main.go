package main

import (
	"fmt"
	"net/http"

	"github.com/issue9/mux/v9"
	"github.com/issue9/mux/v9/types"
)

func hexish(s string) bool {
	if s == "" {
		return false
	}
	for i := 0; i < len(s); i++ {
		if !(s[i] >= '0' && s[i] <= '9' || s[i] >= 'a' && s[i] <= 'f') {
			return false
		}
	}
	return true
}

func match(hs *mux.Hosts, h string) {
	ctx := types.NewContext()
	ok := hs.Match(&http.Request{Host: h}, ctx)
	fmt.Println(h, ok)
}

func main() {
	hs := mux.NewHosts(false)
	hs.Add(`{d:\d+}aa/z/z`)
	hs.Add(`{d:\d+}aa`)
	hs.RegisterInterceptor(hexish, `\d+`)
	hs.Delete(`{d:\d+}aa`)
	hs.Add(`{d:\d+}aa/z`)
	match(hs, "42aa/z")
	hs.Delete(`{d:\d+}aa/z/z`)
	match(hs, "42aa/z")
	match(hs, "42aa/z/z")
}
