package main

import (
	"fmt"
	"os"
	"strings"

	"verifharness/gen"
	"verifharness/mon"
	"github.com/issue9/mux/v9"
)

func main() {
	// usage: scratch <icset> <path> pattern...
	var ics gen.ICSet
	for _, s := range gen.ICSets {
		if s.Name == os.Args[1] {
			ics = s
		}
	}
	env := mon.NewEnv()
	var o []mux.Option
	for n, f := range ics.Funcs {
		o = append(o, mux.WithInterceptor(mux.InterceptorFunc(f), n))
	}
	r := env.NewRouter("r", o...)
	for _, p := range os.Args[3:] {
		func() {
			defer func() {
				if e := recover(); e != nil {
					fmt.Println("reject", p, e)
				}
			}()
			r.Handle(p, env.NewHnd(mon.KRoute, p), nil, "GET")
		}()
	}
	for _, path := range strings.Split(os.Args[2], ",") {
		ob := mon.Do(r, mon.Req{Method: "GET", Path: path})
		fmt.Println(path, "=>", ob.Status, ob.NodePattern, ob.Params, ob.Panic)
	}
}
