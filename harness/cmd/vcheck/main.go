// vcheck: one CLI for every property check.
//
//	vcheck run    -prop C01 -tier quick|thorough [-seed N]     orchestrator: shards, merge, evidence, verdict
//	vcheck child  -prop C01 -tier T -seed N -shard i -nshards n -out base
//	vcheck replay <file>                                       re-run one recorded case against the current tree
package main

import (
	"bufio"
	"encoding/json"
	"flag"
	"fmt"
	"os"
	"os/exec"
	"path/filepath"
	"runtime"
	"sort"
	"strconv"
	"strings"
	"sync"
	"time"

	"verifharness/eng"
)

func main() {
	if len(os.Args) < 2 {
		fmt.Fprintln(os.Stderr, "usage: vcheck run|child|replay ...")
		os.Exit(2)
	}
	switch os.Args[1] {
	case "run":
		os.Exit(cmdRun(os.Args[2:]))
	case "child":
		os.Exit(cmdChild(os.Args[2:]))
	case "replay":
		os.Exit(cmdReplay(os.Args[2:]))
	case "transcript":
		fs := flag.NewFlagSet("transcript", flag.ExitOnError)
		scripts := fs.String("scripts", "", "")
		trace := fs.Bool("trace", false, "")
		seed := fs.Uint64("seed", 1, "")
		first := fs.Bool("first", false, "")
		fs.Parse(os.Args[2:])
		var names []string
		if *scripts != "" {
			names = strings.Split(*scripts, ",")
		}
		os.Exit(eng.TranscriptMain(names, *trace, *seed, *first))
	case "list":
		ids := []string{}
		for id := range eng.Engines {
			ids = append(ids, id)
		}
		sort.Strings(ids)
		fmt.Println(strings.Join(ids, " "))
	default:
		fmt.Fprintln(os.Stderr, "unknown command", os.Args[1])
		os.Exit(2)
	}
}

func envSeed() uint64 {
	if s := os.Getenv("VERIF_SEED"); s != "" {
		if v, err := strconv.ParseUint(s, 10, 64); err == nil {
			return v
		}
	}
	return 1
}

func verifDir() string {
	if d := os.Getenv("VERIF_DIR"); d != "" {
		return d
	}
	return "/verif"
}

// ---------------- child ----------------

func cmdChild(args []string) int {
	fs := flag.NewFlagSet("child", flag.ExitOnError)
	prop := fs.String("prop", "", "")
	tier := fs.String("tier", "quick", "")
	seed := fs.Uint64("seed", 1, "")
	shard := fs.Int("shard", 0, "")
	nshards := fs.Int("nshards", 1, "")
	out := fs.String("out", "", "")
	fs.Parse(args)
	e := eng.Engines[*prop]
	if e == nil {
		fmt.Fprintln(os.Stderr, "no engine", *prop)
		return 2
	}
	res := eng.NewResult(e.ID)
	prog, _ := os.OpenFile(*out+".progress", os.O_CREATE|os.O_WRONLY|os.O_TRUNC, 0o644)
	mark := func(s string) {
		if prog != nil {
			prog.WriteAt([]byte(fmt.Sprintf("%-40s", s)), 0)
		}
	}
	if *shard == 0 && e.Directed != nil {
		for _, d := range e.Directed() {
			mark("directed " + d.ID)
			e.RunDirected(res, *tier, *seed, d, false)
			if res.Abort {
				break
			}
		}
	}
	n := e.Cases(*tier)
	for i := *shard; i < n && !res.Abort; i += *nshards {
		mark("case " + strconv.Itoa(i))
		e.RunCase(res, *tier, *seed, i, false)
		if len(res.Violations) > 200 {
			break
		}
	}
	if e.Finish != nil {
		e.Finish(res)
	}
	mark("done")
	if err := res.WriteFiles(*out); err != nil {
		fmt.Fprintln(os.Stderr, err)
		return 2
	}
	return 0
}

// ---------------- run ----------------

type finding struct {
	Property string `json:"property"`
	ID       string `json:"id"`
	Status   string `json:"status"` // open | fixed
	Commit   string `json:"commit,omitempty"`
	What     string `json:"what"`
}

func loadFindings() []finding {
	var out []finding
	f, err := os.Open(filepath.Join(verifDir(), "known_findings.jsonl"))
	if err != nil {
		return nil
	}
	defer f.Close()
	sc := bufio.NewScanner(f)
	sc.Buffer(make([]byte, 1<<20), 1<<20)
	for sc.Scan() {
		line := strings.TrimSpace(sc.Text())
		if line == "" || strings.HasPrefix(line, "#") {
			continue
		}
		var fd finding
		if json.Unmarshal([]byte(line), &fd) == nil {
			out = append(out, fd)
		}
	}
	return out
}

func cmdRun(args []string) int {
	fs := flag.NewFlagSet("run", flag.ExitOnError)
	prop := fs.String("prop", "", "")
	tier := fs.String("tier", "", "")
	seedF := fs.Uint64("seed", 0, "")
	fs.Parse(args)
	if *tier == "" {
		*tier = os.Getenv("VERIF_TIER")
		if *tier == "" {
			*tier = "quick"
		}
	}
	seed := *seedF
	if seed == 0 {
		seed = envSeed()
	}
	e := eng.Engines[*prop]
	if e == nil {
		fmt.Println("INCONCLUSIVE no engine for", *prop)
		return 2
	}
	start := time.Now()
	vd := verifDir()
	work := filepath.Join(vd, "work", e.ID+"-"+*tier)
	os.RemoveAll(work)
	os.MkdirAll(work, 0o755)
	os.MkdirAll(evidenceDir(), 0o755)
	if old, _ := filepath.Glob(filepath.Join(vd, "replays", e.ID+"-*.json")); old != nil {
		for _, f := range old {
			os.Remove(f)
		}
	}

	nsh := runtime.NumCPU()
	if nsh > 16 {
		nsh = 16
	}
	if e.Shards != nil {
		nsh = e.Shards(*tier)
	}
	ncases := e.Cases(*tier)
	if nsh > ncases {
		nsh = ncases
	}
	if nsh < 1 {
		nsh = 1
	}
	self, _ := os.Executable()
	covDir := filepath.Join(work, "cov")
	os.MkdirAll(covDir, 0o755)
	watchdog := 20 * time.Minute
	if *tier == "thorough" {
		watchdog = 90 * time.Minute
	}
	type childRes struct {
		err      error
		timedOut bool
	}
	cres := make([]childRes, nsh)
	var wg sync.WaitGroup
	for s := 0; s < nsh; s++ {
		wg.Add(1)
		go func(s int) {
			defer wg.Done()
			base := filepath.Join(work, fmt.Sprintf("shard%02d", s))
			cmd := exec.Command(self, "child", "-prop", e.ID, "-tier", *tier, "-seed", fmt.Sprint(seed),
				"-shard", fmt.Sprint(s), "-nshards", fmt.Sprint(nsh), "-out", base)
			errf, _ := os.Create(base + ".stderr")
			cmd.Stderr = errf
			cmd.Stdout = errf
			cmd.Env = append(os.Environ(), "GORACE=halt_on_error=0 exitcode=0 log_path="+base+".race", "GOTRACEBACK=all", "GOCOVERDIR="+covDir)
			if err := cmd.Start(); err != nil {
				cres[s].err = err
				return
			}
			done := make(chan error, 1)
			go func() { done <- cmd.Wait() }()
			select {
			case err := <-done:
				cres[s].err = err
			case <-time.After(watchdog):
				cmd.Process.Signal(os.Interrupt)
				time.Sleep(200 * time.Millisecond)
				cmd.Process.Kill()
				cres[s].timedOut = true
				<-done
			}
			errf.Close()
		}(s)
	}
	wg.Wait()

	res := eng.NewResult(e.ID)
	inconclusive := []string{}
	for s := 0; s < nsh; s++ {
		base := filepath.Join(work, fmt.Sprintf("shard%02d", s))
		if cres[s].timedOut {
			pb, _ := os.ReadFile(base + ".progress")
			inconclusive = append(inconclusive, fmt.Sprintf("watchdog fired in shard %d at %s", s, strings.TrimSpace(string(pb))))
			continue
		}
		if cres[s].err != nil {
			// the child died: a fatal runtime error or os.Exit inside the workload
			pb, _ := os.ReadFile(base + ".progress")
			at := strings.TrimSpace(string(pb))
			eb, _ := os.ReadFile(base + ".stderr")
			tail := string(eb)
			if len(tail) > 6000 {
				tail = tail[:6000]
			}
			v := eng.Violation{Prop: e.ID, Seed: seed, Tier: *tier, Case: -2, Msg: "child process died (" + cres[s].err.Error() + ") at " + at, Detail: tail}
			if strings.HasPrefix(at, "case ") {
				v.Case, _ = strconv.Atoi(strings.TrimPrefix(at, "case "))
			} else if strings.HasPrefix(at, "directed ") {
				v.Case, v.Directed = -1, strings.TrimPrefix(at, "directed ")
			}
			res.Violations = append(res.Violations, v)
			continue
		}
		if err := res.MergeFiles(base); err != nil {
			inconclusive = append(inconclusive, "cannot read shard result: "+err.Error())
		}
	}
	if e.Post != nil {
		e.Post(res, work, *tier, seed)
	}
	// coverage probe: which anchor functions of the property did the workload reach (compiler instrumentation, by function name)
	if anchors, unreached, total := coverageProbe(covDir, e.Anchors); total > 0 {
		res.Extra["anchors"] = anchors
		res.Extra["mux_functions_reached"] = total
		var advisory []string
		for _, a := range unreached {
			// an exported entry point that exists but was never entered means the workload missed the property's code: inconclusive.
			// An unexported helper may have been orphaned by a refactoring (kept only for its unit test): reported, not a verdict.
			name := a[strings.LastIndexAny(a, ":.")+1:]
			if name != "" && name[0] >= 'A' && name[0] <= 'Z' {
				inconclusive = append(inconclusive, "anchor function never entered by the workload: "+a)
			} else {
				advisory = append(advisory, a)
			}
		}
		if len(advisory) > 0 {
			res.Extra["anchors_unexported_never_entered"] = advisory
			fmt.Printf("NOTE unexported anchor function(s) never entered (dead code after a refactoring?): %s\n", strings.Join(advisory, ", "))
		}
	}

	// known findings
	findings := loadFindings()
	open := map[string]finding{}
	for _, f := range findings {
		if f.Property == e.ID && f.Status == "open" {
			open[f.ID] = f
		}
	}
	var real []eng.Violation
	knownSeen := map[string]bool{}
	for _, v := range res.Violations {
		if v.Directed != "" {
			if f, ok := open[v.Directed]; ok {
				if !knownSeen[f.ID] {
					knownSeen[f.ID] = true
					fmt.Printf("KNOWN-FINDING: property=%s %s [%s]\n", e.ID, f.What, f.ID)
				}
				continue
			}
		}
		real = append(real, v)
	}

	// floors: observation minimums, below => inconclusive
	if len(real) == 0 && e.Floors != nil {
		fl := e.Floors(*tier)
		ks := make([]string, 0, len(fl))
		for k := range fl {
			ks = append(ks, k)
		}
		sort.Strings(ks)
		for _, k := range ks {
			got := res.Classes[k]
			if k == "distinct_nontrivial" {
				got = int64(res.Distinct())
			}
			if got < fl[k] {
				inconclusive = append(inconclusive, fmt.Sprintf("observation floor missed: %s=%d < %d", k, got, fl[k]))
			}
		}
	}

	wall := time.Since(start).Seconds()
	writeEvidence(e, res, *tier, seed, wall, len(real), knownSeen, inconclusive)
	fmt.Print(res.Summary())

	if len(real) > 0 {
		os.MkdirAll(filepath.Join(vd, "replays"), 0o755)
		seen := map[string]bool{}
		n := 0
		for _, v := range real {
			key := fmt.Sprintf("%d/%s", v.Case, v.Directed)
			if seen[key] {
				continue
			}
			seen[key] = true
			n++
			if n > 10 {
				break
			}
			name := fmt.Sprintf("%s-%d-%d.json", e.ID, seed, v.Case)
			if v.Directed != "" {
				name = fmt.Sprintf("%s-directed-%s.json", e.ID, v.Directed)
			}
			p := filepath.Join(vd, "replays", name)
			b, _ := json.MarshalIndent(v, "", " ")
			os.WriteFile(p, b, 0o644)
			msg := v.Msg
			if len(msg) > 300 {
				msg = msg[:300]
			}
			fmt.Printf("VIOLATION property=%s replay=%s :: %s\n", e.ID, p, msg)
		}
		return 1
	}
	if len(inconclusive) > 0 {
		for _, s := range inconclusive {
			fmt.Println("INCONCLUSIVE", s)
		}
		return 2
	}
	fmt.Printf("OK property=%s tier=%s seed=%d held on everything observed (%.1fs)\n", e.ID, *tier, seed, wall)
	return 0
}

func writeEvidence(e *eng.Engine, res *eng.Result, tier string, seed uint64, wall float64, nviol int, known map[string]bool, inconclusive []string) {
	level := e.Level
	if level == "" {
		level = "exploration"
	}
	samples := res.Samples
	if len(samples) > 12 {
		samples = samples[:12]
	}
	if samples == nil {
		samples = []any{}
	}
	cov := map[string]any{
		"evaluations":         res.Evaluations,
		"distinct_nontrivial": res.Distinct(),
		"rule":                e.Rule,
		"samples":             samples,
		"cases":               res.Cases,
		"classes_seen":        res.Classes,
		"events":              res.Events,
	}
	if e.Exhaustive {
		cov["exhaustive"] = true
	}
	for k, v := range res.Extra {
		cov[k] = v
	}
	kf := []string{}
	for k := range known {
		kf = append(kf, k)
	}
	sort.Strings(kf)
	if len(kf) > 0 {
		cov["known_findings_reproduced"] = kf
	}
	if len(inconclusive) > 0 {
		cov["inconclusive"] = inconclusive
	}
	ev := map[string]any{
		"property_id": e.ID,
		"tier":        tier,
		"seed":        seed,
		"level":       level,
		"coverage":    cov,
		"assumptions": e.Assume,
		"wall_s":      wall,
		"violations":  nviol,
	}
	b, _ := json.MarshalIndent(ev, "", " ")
	os.WriteFile(filepath.Join(evidenceDir(), e.ID+".json"), b, 0o644)
}

// evidenceDir is /verif/evidence. Runs against something other than /repo (MUX_REPO: a snapshot, or a scratch worktree
// holding a seeded change) write elsewhere (run.sh sets VERIF_EVIDENCE_DIR), so the committed evidence always describes
// a run against /repo itself.
func evidenceDir() string {
	if d := os.Getenv("VERIF_EVIDENCE_DIR"); d != "" {
		return d
	}
	return filepath.Join(verifDir(), "evidence")
}

// ---------------- replay ----------------

func cmdReplay(args []string) int {
	if len(args) < 1 {
		fmt.Fprintln(os.Stderr, "usage: vcheck replay <file>")
		return 2
	}
	b, err := os.ReadFile(args[0])
	if err != nil {
		fmt.Fprintln(os.Stderr, err)
		return 2
	}
	var v eng.Violation
	if err := json.Unmarshal(b, &v); err != nil {
		fmt.Fprintln(os.Stderr, err)
		return 2
	}
	e := eng.Engines[v.Prop]
	if e == nil {
		fmt.Fprintln(os.Stderr, "no engine", v.Prop)
		return 2
	}
	res := eng.NewResult(e.ID)
	reps := 1
	if e.Race {
		reps = 20 // schedules are not reproducible: repeat the workload
	}
	if strings.HasPrefix(v.Directed, "race:") || v.Case < -1 {
		// a race report or a died child is not tied to one case: re-run the quick workload in this
		// (race-instrumented) process; the race detector prints its reports to stderr and the
		// process exits with status 66 when it saw one.
		fmt.Printf("replay: re-running the quick workload of %s under the race detector (reports go to stderr)\n", v.Prop)
		for i := 0; i < e.Cases("quick"); i++ {
			e.RunCase(res, "quick", v.Seed, i, false)
		}
		reps = 0
	}
	for k := 0; k < reps; k++ {
		if v.Directed != "" && e.Directed != nil {
			for _, d := range e.Directed() {
				if d.ID == v.Directed {
					e.RunDirected(res, v.Tier, v.Seed, d, true)
				}
			}
		} else if v.Case >= 0 {
			e.RunCase(res, v.Tier, v.Seed, v.Case, true)
		}
	}
	if len(res.Violations) == 0 {
		fmt.Printf("replay: no violation reproduced for %s case %d %s\n", v.Prop, v.Case, v.Directed)
		return 0
	}
	for i, x := range res.Violations {
		if i >= 5 {
			break
		}
		d, _ := json.MarshalIndent(x.Detail, "", " ")
		fmt.Printf("VIOLATION property=%s replay=%s :: %s\n%s\n", x.Prop, args[0], x.Msg, d)
	}
	return 1
}

// coverageProbe runs `go tool covdata func` over the children's counter files
// and returns, for the property's anchor functions, the percentage of
// statements executed. Anchors are matched by function name (receiver and type
// parameters stripped), so moved lines do not break the probe; an anchor that
// no longer exists is reported as "not found" and ignored, an exported one that
// exists but was never entered makes the run inconclusive, an unexported one
// that was never entered is reported only (it may be dead code).
func coverageProbe(covDir string, anchors []string) (map[string]any, []string, int) {
	files, _ := filepath.Glob(filepath.Join(covDir, "covcounters.*"))
	if len(files) == 0 {
		return nil, nil, 0
	}
	out, err := exec.Command("go", "tool", "covdata", "func", "-i="+covDir).Output()
	if err != nil {
		return nil, nil, 0
	}
	type fn struct {
		file, name string
		pct        float64
	}
	var fns []fn
	reached := 0
	for _, line := range strings.Split(string(out), "\n") {
		f := strings.Fields(line)
		if len(f) != 3 || !strings.HasPrefix(f[0], "github.com/issue9/mux/v9/") {
			continue
		}
		file := strings.TrimPrefix(f[0], "github.com/issue9/mux/v9/")
		if i := strings.IndexByte(file, ':'); i >= 0 {
			file = file[:i]
		}
		pct, _ := strconv.ParseFloat(strings.TrimSuffix(f[2], "%"), 64)
		name := strings.TrimPrefix(f[1], "*")
		fns = append(fns, fn{file, name, pct})
		if pct > 0 {
			reached++
		}
	}
	res := map[string]any{}
	var unreached []string
	for _, a := range anchors { // "file.go:Func" or "Func"
		wantFile, wantName := "", a
		if i := strings.IndexByte(a, ':'); i >= 0 {
			wantFile, wantName = a[:i], a[i+1:]
		}
		found, best := false, 0.0
		for _, f := range fns {
			if f.name == wantName && (wantFile == "" || strings.HasSuffix(f.file, wantFile)) {
				found = true
				if f.pct > best {
					best = f.pct
				}
			}
		}
		switch {
		case !found:
			res[a] = "not found (renamed?)"
		default:
			res[a] = fmt.Sprintf("%.1f%% of statements executed", best)
			if best == 0 {
				unreached = append(unreached, a)
			}
		}
	}
	return res, unreached, reached
}
