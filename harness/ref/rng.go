// Package ref holds the independent reference models. Nothing in this
// package imports mux: every oracle here is written from the property
// statements and the README.
package ref

// R is a small deterministic PRNG (splitmix64). Case lists are derived from
// VERIF_SEED, never from the clock.
type R struct{ s uint64 }

func Mix(a, b uint64) uint64 {
	z := a + 0x9e3779b97f4a7c15*(b+1)
	z = (z ^ (z >> 30)) * 0xbf58476d1ce4e5b9
	z = (z ^ (z >> 27)) * 0x94d049bb133111eb
	return z ^ (z >> 31)
}

func NewR(seed uint64) *R { return &R{s: Mix(seed, 0x1234567)} }

func (r *R) U64() uint64 {
	r.s += 0x9e3779b97f4a7c15
	z := r.s
	z = (z ^ (z >> 30)) * 0xbf58476d1ce4e5b9
	z = (z ^ (z >> 27)) * 0x94d049bb133111eb
	return z ^ (z >> 31)
}

// Intn returns a value in [0,n).
func (r *R) Intn(n int) int {
	if n <= 0 {
		return 0
	}
	return int(r.U64() % uint64(n))
}

// Range returns a value in [lo,hi].
func (r *R) Range(lo, hi int) int { return lo + r.Intn(hi-lo+1) }

func (r *R) Bool() bool { return r.U64()&1 == 1 }

// Chance is true with probability num/den.
func (r *R) Chance(num, den int) bool { return r.Intn(den) < num }

func Pick[T any](r *R, xs []T) T { return xs[r.Intn(len(xs))] }

func Shuffle[T any](r *R, xs []T) {
	for i := len(xs) - 1; i > 0; i-- {
		j := r.Intn(i + 1)
		xs[i], xs[j] = xs[j], xs[i]
	}
}

func (r *R) Bytes(n int) []byte {
	b := make([]byte, n)
	for i := range b {
		b[i] = byte(r.U64())
	}
	return b
}

// Hash64 is FNV-1a, used for counting distinct cases.
func Hash64(s string) uint64 {
	h := uint64(14695981039346656037)
	for i := 0; i < len(s); i++ {
		h ^= uint64(s[i])
		h *= 1099511628211
	}
	return h
}
