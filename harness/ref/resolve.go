package ref

import (
	"sort"
	"strings"
)

// Resolver is an executable statement of the documented resolution rule
// (README "路径匹配规则" + property C02). It never builds a tree: its state is
// the set of candidate routes that share the consumed pattern text, plus the
// rest of the path.
type Resolver struct {
	Pats []Pattern
	IC   Interceptors

	// statistics of the last Resolve call
	Abandoned int // alternatives given up after they had captured a value
	Steps     int
}

type Outcome struct {
	Pat    int // index into Pats
	Params map[string]string
}

// Key is a canonical rendering (pattern + sorted params).
func (o Outcome) Key(pats []Pattern) string { return OutcomeKey(pats[o.Pat].Src, o.Params) }

func OutcomeKey(pattern string, params map[string]string) string {
	ks := make([]string, 0, len(params))
	for k := range params {
		ks = append(ks, k)
	}
	sort.Strings(ks)
	var b strings.Builder
	b.WriteString(pattern)
	for _, k := range ks {
		b.WriteString("\x00" + k + "\x01" + params[k])
	}
	return b.String()
}

type cand struct {
	pat int
	ti  int // token index
	off int // offset inside a literal token
}

type kv struct{ k, v string }

// Resolve returns the set of admissible outcomes for path; empty = 404.
func (rs *Resolver) Resolve(path string) []Outcome {
	rs.Abandoned, rs.Steps = 0, 0
	cands := make([]cand, len(rs.Pats))
	for i := range rs.Pats {
		cands[i] = cand{pat: i}
	}
	return rs.resolve(cands, path, nil)
}

func (rs *Resolver) tok(c cand) *Tok { return &rs.Pats[c.pat].Toks[c.ti] }

func (rs *Resolver) resolve(cands []cand, rest string, caps []kv) []Outcome {
	rs.Steps++
	var ended []cand
	var lits, params []cand
	for _, c := range cands {
		toks := rs.Pats[c.pat].Toks
		for c.ti < len(toks) && toks[c.ti].Kind == KLit && c.off >= len(toks[c.ti].Lit) {
			c.ti++
			c.off = 0
		}
		switch {
		case c.ti == len(toks):
			ended = append(ended, c)
		case toks[c.ti].Kind == KLit:
			if rest != "" && toks[c.ti].Lit[c.off] == rest[0] {
				c.off++
				lits = append(lits, c)
			}
		default:
			params = append(params, c)
		}
	}

	// (a) literal text is tried first; if that branch finds a route it wins.
	if len(lits) > 0 {
		if out := rs.resolve(lits, rest[1:], caps); len(out) > 0 {
			return out
		}
	}

	// (b) parameter alternatives in kind order. An alternative is the set of
	// candidates with the same token text and the same first literal byte
	// after it (or those for which the pattern ends at the token).
	var result []Outcome
	if len(params) > 0 {
		type altKey struct {
			kind Kind
			text string
			next int // first literal byte after the token, -1 = pattern ends
		}
		alts := map[altKey][]cand{}
		var order []altKey
		for _, c := range params {
			toks := rs.Pats[c.pat].Toks
			k := altKey{kind: toks[c.ti].Kind, text: toks[c.ti].Text, next: -1}
			if c.ti+1 < len(toks) {
				k.next = int(toks[c.ti+1].Lit[0])
			}
			if _, ok := alts[k]; !ok {
				order = append(order, k)
			}
			alts[k] = append(alts[k], c)
		}
		for _, kind := range []Kind{KInter, KRegexp, KNamed} {
			var outs []Outcome
			for _, k := range order {
				if k.kind != kind {
					continue
				}
				group := alts[k]
				t := rs.tok(group[0])
				if k.next < 0 { // final: takes the whole rest
					if t.Accepts(rest, rs.IC) {
						outs = append(outs, Outcome{Pat: group[0].pat, Params: mkParams(caps, t, rest)})
					}
					continue
				}
				// suffix = literal continuation shared by the alternative's routes
				suffix := rs.Pats[group[0].pat].Toks[group[0].ti+1].Lit
				for _, c := range group[1:] {
					suffix = commonPrefix(suffix, rs.Pats[c.pat].Toks[c.ti+1].Lit)
				}
				// shortest accepted text after which the suffix occurs
				found := -1
				for i := 0; i+len(suffix) <= len(rest); i++ {
					if strings.HasPrefix(rest[i:], suffix) && t.Accepts(rest[:i], rs.IC) {
						found = i
						break
					}
				}
				if found < 0 {
					continue
				}
				next := make([]cand, len(group))
				for i, c := range group {
					next[i] = cand{pat: c.pat, ti: c.ti + 1, off: len(suffix)}
				}
				ncaps := caps
				if !t.Ignore {
					ncaps = append(append([]kv(nil), caps...), kv{t.Name, rest[:found]})
				}
				sub := rs.resolve(next, rest[found+len(suffix):], ncaps)
				if len(sub) == 0 {
					rs.Abandoned++ // given up; never retried with a longer value
					continue
				}
				outs = append(outs, sub...)
			}
			if len(outs) > 0 {
				result = outs
				break
			}
		}
	}

	// (c) path exhausted: a route ending here is admissible (next to a
	// parameter that matched the empty string, either may win).
	if rest == "" {
		for _, c := range ended {
			result = append(result, Outcome{Pat: c.pat, Params: mkParams(caps, nil, "")})
		}
	}
	return result
}

func mkParams(caps []kv, t *Tok, v string) map[string]string {
	m := make(map[string]string, len(caps)+1)
	for _, c := range caps {
		m[c.k] = c.v
	}
	if t != nil && !t.Ignore {
		m[t.Name] = v
	}
	return m
}

func commonPrefix(a, b string) string {
	n := len(a)
	if len(b) < n {
		n = len(b)
	}
	i := 0
	for i < n && a[i] == b[i] {
		i++
	}
	return a[:i]
}

// Matches reports whether path is an instance of the pattern for some
// parameter values (existential; used for non-triviality counting and for
// the definite/maybe classification).
func (p Pattern) Matches(path string, ic Interceptors) bool {
	return matchFree(p.Toks, path, ic)
}

func matchFree(toks []Tok, rest string, ic Interceptors) bool {
	if len(toks) == 0 {
		return rest == ""
	}
	t := &toks[0]
	if t.Kind == KLit {
		return strings.HasPrefix(rest, t.Lit) && matchFree(toks[1:], rest[len(t.Lit):], ic)
	}
	if len(toks) == 1 {
		return t.Accepts(rest, ic)
	}
	nl := toks[1].Lit // well-formed patterns never have adjacent parameters
	for n := 0; n+len(nl) <= len(rest); n++ {
		if strings.HasPrefix(rest[n:], nl) && t.Accepts(rest[:n], ic) && matchFree(toks[1:], rest[n:], ic) {
			return true
		}
	}
	return false
}
