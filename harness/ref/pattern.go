package ref

import (
	"regexp"
	"strings"
)

type Kind int

const (
	KLit Kind = iota
	KInter
	KRegexp
	KNamed
)

func (k Kind) String() string {
	return [...]string{"literal", "interceptor", "regexp", "named"}[k]
}

// Tok is one element of a pattern: literal text or one {name:rule} token.
type Tok struct {
	Kind   Kind
	Lit    string // KLit: the text
	Text   string // parameters: the token as written, braces included
	Name   string // parameter name without the '-' flag
	Ignore bool   // '-' flag: value is not captured
	Rule   string
	re     *regexp.Regexp // ^(?:rule)$ for KRegexp
}

type Pattern struct {
	Src  string
	Toks []Tok
}

type SyntaxClass int

const (
	SynOK SyntaxClass = iota
	SynEmpty
	SynUnbalanced
	SynEmptyName
	SynAdjacent
	SynDuplicate
	SynBadRegexp
)

func (c SyntaxClass) String() string {
	return [...]string{"ok", "empty", "unbalanced", "empty-name", "adjacent", "duplicate-name", "bad-regexp"}[c]
}

// Interceptors maps a rule text to the Go function that decides it.
type Interceptors map[string]func(string) bool

// Parse is the reference pattern parser: balanced {name[:rule]} tokens, literal
// text without braces. It shares no code with mux.
func Parse(src string, ic Interceptors) (Pattern, SyntaxClass) {
	p := Pattern{Src: src}
	if src == "" {
		return p, SynEmpty
	}
	seen := map[string]bool{}
	dup := false // reported at the end: the tokens of such a pattern are still all there, for a router that accepts it
	i := 0
	lastWasParam := false
	for i < len(src) {
		if src[i] == '}' {
			return p, SynUnbalanced
		}
		if src[i] != '{' {
			j := i
			for j < len(src) && src[j] != '{' && src[j] != '}' {
				j++
			}
			p.Toks = append(p.Toks, Tok{Kind: KLit, Lit: src[i:j]})
			lastWasParam = false
			i = j
			continue
		}
		end := strings.IndexByte(src[i:], '}')
		if end < 0 {
			return p, SynUnbalanced
		}
		body := src[i+1 : i+end]
		if strings.IndexByte(body, '{') >= 0 {
			return p, SynUnbalanced
		}
		if lastWasParam {
			return p, SynAdjacent
		}
		t := Tok{Text: src[i : i+end+1]}
		name, rule := body, ""
		if c := strings.IndexByte(body, ':'); c >= 0 {
			name, rule = body[:c], body[c+1:]
		}
		if strings.HasPrefix(name, "-") {
			t.Ignore = true
			name = name[1:]
		}
		if name == "" {
			return p, SynEmptyName
		}
		if seen[name] {
			dup = true
		}
		seen[name] = true
		t.Name, t.Rule = name, rule
		switch {
		case rule == "":
			t.Kind = KNamed
		case ic != nil && ic[rule] != nil:
			t.Kind = KInter
		default:
			t.Kind = KRegexp
			re, err := regexp.Compile("^(?:" + rule + ")$")
			if err != nil {
				return p, SynBadRegexp
			}
			t.re = re
		}
		p.Toks = append(p.Toks, t)
		lastWasParam = true
		i += end + 1
	}
	if dup {
		return p, SynDuplicate
	}
	return p, SynOK
}

// Accepts reports whether the parameter's constraint accepts v over its whole length.
func (t *Tok) Accepts(v string, ic Interceptors) bool {
	switch t.Kind {
	case KNamed:
		return true
	case KInter:
		return ic[t.Rule](v)
	case KRegexp:
		return t.re.MatchString(v)
	}
	return false
}

// CaptureNames returns the names of the capturing (non '-') parameters.
func (p Pattern) CaptureNames() []string {
	var out []string
	for _, t := range p.Toks {
		if t.Kind != KLit && !t.Ignore {
			out = append(out, t.Name)
		}
	}
	return out
}

func (p Pattern) HasIgnored() bool {
	for _, t := range p.Toks {
		if t.Kind != KLit && t.Ignore {
			return true
		}
	}
	return false
}

func (p Pattern) HasParams() bool {
	for _, t := range p.Toks {
		if t.Kind != KLit {
			return true
		}
	}
	return false
}

// Conforms decides the C01 conformance clause: path equals the pattern with
// every capturing parameter replaced by params[name] (and '-' parameters by
// some accepted text), literals byte for byte, every value accepted by its
// constraint. It does not say which route should have won.
func (p Pattern) Conforms(path string, params map[string]string, ic Interceptors) bool {
	return conform(p.Toks, path, params, ic)
}

func conform(toks []Tok, rest string, params map[string]string, ic Interceptors) bool {
	if len(toks) == 0 {
		return rest == ""
	}
	t := &toks[0]
	if t.Kind == KLit {
		if !strings.HasPrefix(rest, t.Lit) {
			return false
		}
		return conform(toks[1:], rest[len(t.Lit):], params, ic)
	}
	if !t.Ignore {
		v, ok := params[t.Name]
		if !ok || !strings.HasPrefix(rest, v) || !t.Accepts(v, ic) {
			return false
		}
		return conform(toks[1:], rest[len(v):], params, ic)
	}
	for n := 0; n <= len(rest); n++ {
		if t.Accepts(rest[:n], ic) && conform(toks[1:], rest[n:], params, ic) {
			return true
		}
	}
	return false
}

// Build substitutes params into the pattern (reference for non-strict URL).
// ok=false when a name is missing.
func (p Pattern) Build(params map[string]string) (string, bool) {
	var b strings.Builder
	for _, t := range p.Toks {
		if t.Kind == KLit {
			b.WriteString(t.Lit)
			continue
		}
		v, ok := params[t.Name]
		if !ok {
			return "", false
		}
		b.WriteString(v)
	}
	return b.String(), true
}

// Skeleton is the pattern with parameter names (and '-' flags) erased; two
// live patterns with the same skeleton are "identical up to parameter names".
func (p Pattern) Skeleton() string {
	var b strings.Builder
	for _, t := range p.Toks {
		if t.Kind == KLit {
			b.WriteString(t.Lit)
		} else {
			b.WriteString("{:" + t.Rule + "}")
		}
	}
	return b.String()
}

// Standard interceptor functions, written independently of mux's.
func IsDigits(s string) bool {
	if s == "" {
		return false
	}
	for i := 0; i < len(s); i++ {
		if s[i] < '0' || s[i] > '9' {
			return false
		}
	}
	return true
}

func IsWord(s string) bool {
	if s == "" {
		return false
	}
	for i := 0; i < len(s); i++ {
		c := s[i]
		if !(c >= '0' && c <= '9' || c >= 'a' && c <= 'z' || c >= 'A' && c <= 'Z') {
			return false
		}
	}
	return true
}

func IsAny(s string) bool { return s != "" }
