package eng

import (
	"fmt"
	"mime"
	"net/http"
	"net/url"
	"strings"

	"github.com/issue9/mux/v9"
	"github.com/issue9/mux/v9/types"

	"verifharness/ref"
)

// C15: version matchers accept exactly their versions and rewrite only on success.

func normVersion(v string) string {
	if !strings.HasPrefix(v, "/") {
		v = "/" + v
	}
	if !strings.HasSuffix(v, "/") {
		v += "/"
	}
	return v
}

// refPathVersion is the direct model: (accept, new path, recorded value).
func refPathVersion(versions []string, path string) (bool, string, string) {
	for _, v := range versions {
		nv := normVersion(v)
		if strings.HasPrefix(path, nv) {
			seg := nv[:len(nv)-1]
			return true, path[len(seg):], seg
		}
	}
	return false, path, ""
}

var versionPool = []string{"v1", "v11", "/v1", "v1/", "/v2/", "v1/x", "1.0", "beta", "v", "V1", "é", "v1//", "api/v3"}

func ctxParams(ctx *types.Context) string {
	m := map[string]string{}
	ctx.Range(func(k, v string) { m[k] = v })
	return fmtParams(m)
}

func runC15(c *Ctx) {
	r := c.R
	if r.Chance(1, 3) {
		c15LongLived(c)
	}
	for k := 0; k < 120 && !c.Violated(); k++ {
		if k%2 == 0 {
			// ---- path version ----
			n := r.Range(1, 4)
			vs := make([]string, n)
			for i := range vs {
				vs[i] = ref.Pick(r, versionPool)
			}
			if r.Chance(1, 6) {
				// scale: a long list (9-40 versions), mostly single-segment ones, in random order with a few pool entries mixed in
				n = r.Range(9, 40)
				vs = vs[:0]
				for i := 0; i < n; i++ {
					if r.Chance(1, 8) {
						vs = append(vs, ref.Pick(r, versionPool))
					} else {
						vs = append(vs, fmt.Sprintf("v%d", r.Range(1, 30)))
					}
				}
				c.Class("path_version_list_of_9plus")
			}
			orig := append([]string(nil), vs...)
			param := ref.Pick(r, []string{"ver", "", "version"})
			m := mux.NewPathVersion(param, vs...)
			for j := 0; j < 6; j++ {
				var path string
				switch r.Intn(8) {
				case 0:
					path = ""
				case 1:
					path = string(r.Bytes(r.Range(1, 10)))
				case 2:
					path = normVersion(ref.Pick(r, orig)) // exactly the prefix
				case 3:
					p := normVersion(ref.Pick(r, orig))
					path = p[:len(p)-1] // without the trailing slash
				case 4:
					p := normVersion(ref.Pick(r, orig))
					path = p + "x" + p + "y" // version text recurring later
				case 5:
					path = "/x" + normVersion(ref.Pick(r, orig))
				default:
					path = normVersion(ref.Pick(r, versionPool)) + ref.Pick(r, []string{"", "a", "a/b", "/", "v1/z"})
				}
				req := &http.Request{Method: "GET", URL: &url.URL{Path: path, RawQuery: "q=1", Host: "h"}, Header: http.Header{"Accept": {"a/b"}}, Host: "h"}
				if r.Bool() && strings.Contains(path, "a") {
					// what net/http delivers for a target with percent-encoded bytes: Path decoded, RawPath as sent
					req.URL.RawPath = strings.ReplaceAll(path, "a", "%61")
					c.Class("request_with_raw_path")
				}
				before := *req.URL
				ctx, preP, preS := c15Ctx(r)
				got := m.Match(req, ctx)
				c.Eval()
				wantOK, wantPath, wantVal := refPathVersion(orig, path)
				det := map[string]any{"versions": orig, "param": param, "path": path, "accepted": got, "path_after": req.URL.Path, "params_after": ctxParams(ctx)}
				switch {
				case got != wantOK:
					c.Violate(fmt.Sprintf("path-version matcher accepted=%v, expected %v", got, wantOK), det)
				case got:
					c.Class("path_accept")
					if c.WantSample("path-version") && len(orig) > 1 {
						c.Sample("path-version", det)
					}
					wantParams := map[string]string{}
					for k, v := range preP {
						wantParams[k] = v
					}
					if param != "" {
						wantParams[param] = wantVal
					}
					if req.URL.Path != wantPath {
						c.Violate(fmt.Sprintf("path rewritten to %q, expected %q", req.URL.Path, wantPath), det)
					} else if ctxParams(ctx) != fmtParams(wantParams) {
						c.Violate(fmt.Sprintf("params %s, expected %s", ctxParams(ctx), fmtParams(wantParams)), det)
					}
					if len(orig) > 1 {
						c.Nontrivial(fmt.Sprintf("pv|%v|%s", orig, path))
					}
				default:
					c.Class("path_reject")
					after := *req.URL
					if after != before || ctxParams(ctx) != preS || req.Host != "h" || req.Header.Get("Accept") != "a/b" {
						c.Violate("rejecting path-version matcher modified the request or the parameters", det)
					}
					c.Nontrivial(fmt.Sprintf("pv|%v|%s", orig, path))
				}
				if before.RawQuery != req.URL.RawQuery || before.Host != req.URL.Host {
					c.Violate("path-version matcher touched other URL fields", det)
				}
				ctx.Destroy()
				if got && !c.Violated() {
					c15InsideRejectingAnd(c, m, path, det)
				}
			}
			continue
		}
		// ---- header version ----
		key := ref.Pick(r, []string{"", "version", "v", "api-version"})
		effKey := key
		if effKey == "" {
			effKey = "version"
		}
		vs := []string{ref.Pick(r, []string{"1", "2", "1.0", "beta"}), ref.Pick(r, []string{"3", "v3", "2"})}
		if r.Chance(1, 5) {
			vs = append(vs, "") // the empty string is a legal version: `version=""` must then be accepted
			ref.Shuffle(r, vs)
		}
		param := ref.Pick(r, []string{"ver", ""})
		var logged int
		m := mux.NewHeaderVersion(param, key, func(error) { logged++ }, vs...)
		for j := 0; j < 6; j++ {
			var accept string
			wantOK, wantVal, byConstruction := false, "", false
			switch r.Intn(6) {
			case 0:
				accept = ""
			case 1:
				accept = string(r.Bytes(r.Range(1, 25)))
			case 2:
				accept = ref.Pick(r, []string{";", "a/b;", "a/b;=", "a/b; version", "a/b;version=1;version=2", "a /b;version=1", "text/html, application/json;version=1", "*/*", "a/b;version=\"1"})
			default:
				// well-formed by construction: type/subtype; params in random order, case, quoting, spacing
				val := ref.Pick(r, append([]string{"9", "1 ", "V3", ""}, vs...))
				kspell := effKey
				if r.Bool() {
					kspell = strings.ToUpper(effKey)
				}
				vv := val
				if r.Bool() || val == "" || strings.ContainsAny(val, " ") {
					vv = `"` + val + `"`
				}
				parts := []string{kspell + "=" + vv}
				if r.Bool() {
					parts = append(parts, "charset=utf-8")
				}
				if r.Bool() {
					parts = append(parts, "q=0.8")
				}
				ref.Shuffle(r, parts)
				sep := ref.Pick(r, []string{";", "; ", " ;  "})
				accept = ref.Pick(r, []string{"application/json", "text/html", "Application/VND.api+json"}) + sep + strings.Join(parts, sep)
				byConstruction = true
				wantOK = contains(vs, val)
				wantVal = val
			}
			present := byConstruction
			if !byConstruction && accept != "" {
				// garbage: mime.ParseMediaType is the definitional parser
				if _, ps, err := mime.ParseMediaType(accept); err == nil {
					wantOK = contains(vs, ps[effKey])
					wantVal = ps[effKey]
					_, present = ps[effKey]
				}
			}
			if contains(vs, "") && !present {
				c.Class("unjudged_absent_parameter_with_empty_version_listed") // the property does not say whether "absent" equals the empty version
				continue
			}
			req := &http.Request{Method: "GET", URL: &url.URL{Path: "/p"}, Header: http.Header{}, Host: "h"}
			if accept != "" || r.Bool() {
				req.Header.Set("Accept", accept)
			}
			ctx, preP, preS := c15Ctx(r)
			got := m.Match(req, ctx)
			c.Eval()
			det := map[string]any{"versions": vs, "key": key, "param": param, "accept": accept, "accepted": got, "params_after": ctxParams(ctx)}
			switch {
			case got != wantOK:
				c.Violate(fmt.Sprintf("header-version matcher accepted=%v, expected %v", got, wantOK), det)
			case got:
				c.Class("header_accept")
				if c.WantSample("header-version") {
					c.Sample("header-version", det)
				}
				wantParams := map[string]string{}
				for k, v := range preP {
					wantParams[k] = v
				}
				if param != "" {
					wantParams[param] = wantVal
				}
				if ctxParams(ctx) != fmtParams(wantParams) {
					c.Violate(fmt.Sprintf("params %s, expected %s", ctxParams(ctx), fmtParams(wantParams)), det)
				}
				c.Nontrivial("hv|" + accept)
			default:
				c.Class("header_reject")
				if ctxParams(ctx) != preS || req.URL.Path != "/p" || req.Header.Get("Accept") != accept {
					c.Violate("rejecting header-version matcher modified the request or the parameters", det)
				}
				c.Nontrivial("hv|" + accept)
			}
			ctx.Destroy()
			// matchers share nothing: a second header-version matcher with another parameter name judges the very same
			// header text right afterwards, then the first one once more
			if _, ps, err := mime.ParseMediaType(accept); err == nil && accept != "" && !c.Violated() {
				key2 := "x-api"
				if r.Bool() {
					key2 = "charset"
				}
				vs2 := []string{"utf-8", "9"}
				if wantVal != "" {
					vs2 = append(vs2, wantVal)
				}
				m2 := mux.NewHeaderVersion("ver2", key2, func(error) {}, vs2...)
				ctx2 := &types.Context{}
				got2 := m2.Match(req, ctx2)
				v2, has2 := ps[key2]
				c.Eval()
				c.Class("second_header_matcher_same_header")
				if got2 != (has2 && contains(vs2, v2)) || got2 && ctxParams(ctx2) != fmtParams(map[string]string{"ver2": v2}) {
					c.Violate(fmt.Sprintf("a second header-version matcher (key %q, versions %q) answered accepted=%v params=%s on the header another matcher (key %q) had just judged", key2, vs2, got2, ctxParams(ctx2), effKey), det)
				}
				ctx3 := &types.Context{}
				if again := m.Match(req, ctx3); again != wantOK {
					c.Violate(fmt.Sprintf("the first matcher answered accepted=%v, then %v on the same request after another matcher looked at it", wantOK, again), det)
				}
			}
		}
	}
}

// c15LongLived: one header-version matcher lives as long as the server and sees many different Accept texts, each of
// them more than once and in another order: its answer for a header depends on that header alone, never on how many
// or which ones came before.
func c15LongLived(c *Ctx) {
	r := c.R
	vs := []string{"1", "2.0", "beta"}
	param := ref.Pick(r, []string{"ver", ""})
	m := mux.NewHeaderVersion(param, "", func(error) {}, vs...)
	type hd struct {
		text, val string
		ok        bool
	}
	var hs []hd
	for i, n := 0, r.Range(20, 60); i < n; i++ {
		val := ref.Pick(r, []string{"1", "2.0", "beta", "3", "1.0", "2", "Beta", "10"})
		text := fmt.Sprintf("%s; version=%s; n=%d", ref.Pick(r, []string{"application/json", "text/html", "a/b"}), val, i)
		if r.Chance(1, 5) {
			text = fmt.Sprintf("a/b;n=%d", i) // no version at all
			val = ""
		}
		hs = append(hs, hd{text, val, contains(vs, val)})
	}
	for round := 0; round < 3 && !c.Violated(); round++ {
		order := make([]int, len(hs))
		for i := range order {
			order[i] = i
		}
		ref.Shuffle(r, order)
		for _, i := range order {
			h := hs[i]
			req := &http.Request{Method: "GET", URL: &url.URL{Path: "/p"}, Header: http.Header{"Accept": {h.text}}, Host: "h"}
			ctx := &types.Context{}
			got := m.Match(req, ctx)
			c.Eval()
			want := map[string]string{}
			if h.ok && param != "" {
				want[param] = h.val
			}
			if got != h.ok || ctxParams(ctx) != fmtParams(want) {
				c.Violate(fmt.Sprintf("a header-version matcher that has judged %d different headers answers accepted=%v params=%s for %q (round %d), expected accepted=%v params=%s",
					len(hs), got, ctxParams(ctx), h.text, round+1, h.ok, fmtParams(want)), map[string]any{"versions": vs, "param": param, "distinct_headers": len(hs)})
				return
			}
			c.Class("long_lived_header_matcher_judged")
		}
	}
}

// c15InsideRejectingAnd: an accepting path-version matcher inside a conjunction whose later member rejects - the
// conjunction rejects, and the rejection leaves path and parameters as they were (all four ways of building it).
func c15InsideRejectingAnd(c *Ctx, m mux.Matcher, path string, det map[string]any) {
	no := func(*http.Request, *types.Context) bool { return false }
	for name, and := range map[string]mux.Matcher{
		"AndMatcher":     mux.AndMatcher(m, mux.MatcherFunc(no)),
		"AndMatcherFunc": mux.AndMatcherFunc(m.Match, no),
	} {
		req := &http.Request{Method: "GET", URL: &url.URL{Path: path}, Header: http.Header{}, Host: "h"}
		ctx := &types.Context{}
		if len(path)%2 == 0 {
			ctx = types.NewContext()
			ctx.Set("pre", "kept")
		}
		before := ctxParams(ctx)
		c.Eval()
		c.Class("version_matcher_inside_rejecting_and")
		if and.Match(req, ctx) || req.URL.Path != path || ctxParams(ctx) != before {
			c.Violate(fmt.Sprintf("%s(version matcher, rejecting member): the rejection left path %q params %s (before: %q %s)", name, req.URL.Path, ctxParams(ctx), path, before), det)
			return
		}
	}
}

// c15Ctx: the context handed to the matcher - from the pool with a parameter already in it, from the pool and empty,
// or the object the pool's New function makes (it never owned a parameter map).
func c15Ctx(r *ref.R) (*types.Context, map[string]string, string) {
	switch r.Intn(4) {
	case 0:
		return &types.Context{}, map[string]string{}, "{}"
	case 1:
		return types.NewContext(), map[string]string{}, "{}"
	}
	ctx := types.NewContext()
	ctx.Set("pre", "kept")
	return ctx, map[string]string{"pre": "kept"}, `{pre:"kept"}`
}

func init() {
	Register(&Engine{
		ID:      "C15",
		Anchors: []string{"match.go:pathVersion.Match", "match.go:headerVersion.Match", "match.go:NewPathVersion", "match.go:NewHeaderVersion"},
		Cases:   func(t string) int { return map[string]int{"quick": 20000, "thorough": 800000}[t] },
		Run:     runC15,
		Rule: "case = 60 path-version matchers (1-4 versions from an overlapping pool: v1, v11, /v1, v1/, v1/x, ...) x 6 paths (exact prefix, prefix without trailing slash, version text recurring later, empty, raw bytes) and 60 header-version matchers x 6 Accept headers (well-formed by construction with random parameter order/case/quoting/spacing, malformed, raw bytes); accept/reject, rewritten path, recorded parameter and untouched-on-reject (deep comparison) are checked against the direct model; " +
			"non-trivial (distinct by versions+input) = rejected request, or accepted with several versions listed / any header acceptance",
		Floors: func(t string) map[string]int64 {
			if t == "quick" {
				return map[string]int64{"path_accept": 10000, "path_reject": 10000, "header_accept": 3000, "header_reject": 10000}
			}
			return map[string]int64{"path_accept": 1000000, "header_accept": 300000}
		},
		Assume: []string{"version strings are non-empty and not only slashes; header keys are lower-case (as documented)", "mime.ParseMediaType is the definitional parser for Accept headers not built by the generator"},
	})
}
