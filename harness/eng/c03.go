package eng

import (
	"fmt"
	"strings"
	"unicode/utf8"

	"verifharness/gen"
	"verifharness/mon"
	"verifharness/ref"
)

// directed histories for C03/C04/C17: regression inputs of the defects found on the pinned tree.

type dOp struct {
	op      string // handle, remove, clean, pclean
	pattern string
	methods []string
}

// runDirectedHistory replays a fixed history with the given monitor after every step.
func runDirectedHistory(c *Ctx, focus string, ics gen.ICSet, trace bool, ops []dOp, probes []probe) {
	h := &hist{c: c, focus: focus, s: NewSys(ics, trace, false), parsed: map[string]ref.Pattern{}}
	seen := map[string]bool{}
	for _, o := range ops {
		if o.pattern != "" && !seen[o.pattern] && o.op == "handle" {
			seen[o.pattern] = true
			if pp, cls := h.s.Parse(o.pattern); cls == ref.SynOK {
				h.parsed[o.pattern] = pp
				h.pool = append(h.pool, o.pattern)
			}
		}
	}
	for i, p := range h.pool {
		w, _ := Witness(h.parsed[p], i)
		for _, m := range []string{"GET", "HEAD", "OPTIONS", "POST", "PUT", "BOGUS"} {
			h.probes = append(h.probes, probe{Method: m, Path: w, Owner: p, Kind: "witness"})
		}
	}
	h.probes = append(h.probes, probes...)
	if focus == "C03" {
		h.prev = h.probeAll(true)
	}
	for _, o := range ops {
		if c.Violated() {
			return
		}
		var touched []string
		kind := o.op
		switch o.op {
		case "handle":
			v, why := h.s.Verdict(o.pattern, o.methods)
			var snapR string
			var snapP []outcome
			if focus == "C17" {
				snapR, snapP = h.snapshot()
			}
			ok, pv, _ := h.s.Handle(o.pattern, o.methods, Via{})
			h.ops = append(h.ops, opRec{Op: "Handle", Pattern: o.pattern, Methods: o.methods, Result: fmt.Sprintf("accepted=%v verdict=%s %s", ok, v, why)})
			if !h.handleVerdict(o.pattern, o.methods, v, why, ok, pv) {
				return
			}
			if !ok && focus == "C17" {
				c.Eval()
				aR, aP := h.snapshot()
				if aR != snapR {
					h.violate("a rejected Handle changed Routes()", map[string]any{"before": snapR, "after": aR})
					return
				}
				for i := range aP {
					if aP[i] != snapP[i] {
						h.violate("a rejected Handle changed a dispatch outcome", map[string]any{"probe": h.probes[i], "before": snapP[i].String(), "after": aP[i].String()})
						return
					}
				}
			}
			touched = []string{o.pattern}
		case "remove":
			touched = append(h.s.Remove(o.pattern, Via{}, o.methods...), o.pattern)
			h.ops = append(h.ops, opRec{Op: "Remove", Pattern: o.pattern, Methods: o.methods})
		case "clean":
			touched = h.s.Clean()
			h.ops = append(h.ops, opRec{Op: "Clean"})
		case "pclean":
			touched = h.s.PrefixClean(o.pattern)
			h.ops = append(h.ops, opRec{Op: "Prefix.Clean", Pattern: o.pattern})
			kind = "clean"
		}
		switch focus {
		case "C03":
			c.Eval()
			if msg := h.s.CompareRoutes(); msg != "" {
				h.violate(msg, nil)
				return
			}
			cur := h.probeAll(true)
			if c.Violated() {
				return
			}
			h.sweep(touched)
			if kind == "remove" || kind == "clean" {
				for k := range cur {
					pv := h.prev[k]
					if pv.Panic != "" {
						continue
					}
					if pv.Status == 404 && pv.Pattern == "" {
						if cur[k] != pv {
							h.violate("a request that was 404 before a removal is answered differently after it", map[string]any{"probe": h.probes[k], "before": pv.String(), "after": cur[k].String()})
							return
						}
					} else if !contains(touched, pv.Pattern) && cur[k] != pv {
						h.violate("a removal changed the handling of a request that had been dispatched to an untouched route", map[string]any{"probe": h.probes[k], "before": pv.String(), "after": cur[k].String()})
						return
					}
				}
			}
			h.prev = cur
		case "C04", "C18":
			h.checkAllow()
		case "C08":
			h.checkHead()
		}
	}
}

// c17SplitResidue: the node of the only live route P is (or was) split by a sibling that has gone again; the ambiguity
// walk then meets P in two pieces. Its name-only twin must be rejected by the "only other route" clause.
func c17SplitResidue(c *Ctx) {
	r := c.R
	ics := stdIC
	var P, Q string
	for try := 0; try < 50 && P == ""; try++ {
		p := gen.Simple.Pattern(r)
		i := strings.LastIndexByte(p, '}')
		if i < 0 || len(p)-i-1 < 2 {
			continue
		}
		tail := p[i+1:]
		k := 1 + r.Intn(len(tail)-1) // cut inside the literal text after the last parameter (rune boundaries only)
		for k < len(tail) && !utf8.RuneStart(tail[k]) {
			k++
		}
		if k >= len(tail) {
			continue
		}
		alt := ref.Pick(r, []string{"v", "k", "/z", "w/{id9}"})
		if strings.HasPrefix(tail[k:], alt[:1]) {
			continue
		}
		P, Q = p, p[:i+1]+tail[:k]+alt
	}
	if P == "" {
		return
	}
	ops := []dOp{H(P, "GET"), H(Q, "GET", "POST")}
	if r.Bool() {
		ops[0], ops[1] = ops[1], ops[0]
	}
	switch r.Intn(4) {
	case 0:
		ops = append(ops, Rm(Q))
	case 1:
		ops = append(ops, Rm(Q, "GET"), Rm(Q, "POST"))
	case 2:
		ops = append(ops, dOp{op: "pclean", pattern: Q})
	default:
		// Q stays: two live routes, the verdict for the twin is the model's business
	}
	tw := twinOf(r, P)
	ops = append(ops, H(tw, ref.Pick(r, []string{"GET", "PUT", "DELETE"})))
	c.Class("split_residue_twin_script")
	runDirectedHistory(c, "C17", ics, r.Chance(1, 4), ops, nil)
	c.Nontrivial(fmt.Sprint(ops))
}

// c17RetryAfterRejection: a call that was rejected is repeated later, corrected - after the table has changed in a way
// that decides it differently. Whatever the rejected call looked at, it left nothing behind that a later call may rely on.
func c17RetryAfterRejection(c *Ctx) {
	r := c.R
	X := ""
	for try := 0; try < 50 && !strings.Contains(X, "{"); try++ {
		X = gen.Simple.Pattern(r)
	}
	if !strings.Contains(X, "{") {
		return
	}
	Y := twinOf(r, X)
	bad := func() []string {
		return append([]string(nil), ref.Pick(r, [][]string{{"GET", "BOGUS"}, {"OPTIONS"}, {"HEAD", "GET"}, {"PUT", ""}, {"POST", "get"}, {"DELETE", "OPTIONS", "PUT"}})...)
	}
	good := func() []string {
		return append([]string(nil), ref.Pick(r, [][]string{{"GET"}, {"PUT", "DELETE"}, {"POST"}, nil})...)
	}
	var ops []dOp
	if r.Chance(1, 3) {
		ops = append(ops, H("/unrelated/"+ref.Pick(r, []string{"a", "{id}", "b/c"}), "GET"))
	}
	var probes []probe
	switch r.Intn(6) {
	case 4, 5:
		// a rejected call for a pattern that is not in the table yet, beside live routes it shares a parameter with: had it
		// been installed, their nodes would have been split / would have got children. Values with a slash and values
		// both rules accept show whether anything of that is left
		pre := ref.Pick(r, []string{"/posts/", "/", "x", "/a/b/"})
		tails := []string{"author", "books", "abc", "a", "auth/x"}
		ref.Shuffle(r, tails)
		t1, t2 := tails[0], tails[1]
		lists := [][]string{{"GET", "GET"}, {"POST", "GET", "POST"}, {"GET", "BOGUS"}, {"PUT", "OPTIONS"}, {"DELETE", "DELETE", "GET"}}
		if r.Bool() {
			ops = append(ops, H(pre+"{id}/"+t1, "GET"), H(pre+"{id}/"+t2, ref.Pick(r, lists)...))
			probes = append(probes, g(pre+"a/b/"+t1), g(pre+"7/"+t1), g(pre+"a/"+t2), g(pre+"a/b/"+t2))
		} else {
			ops = append(ops, H(pre+`{name:\w+}/`+t1, "GET"), H(pre+`{id:\d+}/`+t1, "GET"), H(pre+`{id:\d+}/`+t2, ref.Pick(r, lists)...))
			probes = append(probes, g(pre+"1/"+t1), g(pre+"x/"+t1), g(pre+"1/"+t2))
		}
		c.Class("rejected_new_pattern_beside_live_script")
	case 0: // rejected, then the twin takes the place, then the corrected call: must be rejected
		ops = append(ops, H(X, bad()...), H(Y, good()...), H(X, good()...))
	case 1: // rejected, corrected, repeated: a duplicate; the twin is rejected too
		ms := good()
		ops = append(ops, H(X, bad()...), H(X, ms...), H(X, ms...), H(Y, good()...))
	case 2: // both spellings rejected first
		ops = append(ops, H(X, bad()...), H(Y, bad()...), H(Y, good()...), H(X, good()...))
	default: // the pattern was live, is removed, rejected once, its twin registered, then it comes back
		ops = append(ops, H(X, "GET"), Rm(X), H(X, bad()...), H(Y, good()...), H(X, good()...), Rm(Y), H(X, good()...))
	}
	c.Class("retry_after_rejection_script")
	runDirectedHistory(c, "C17", stdIC, r.Chance(1, 4), ops, probes)
	c.Nontrivial(fmt.Sprint(ops))
}

func hOps(xs ...dOp) []dOp { return xs }

func H(p string, ms ...string) dOp  { return dOp{"handle", p, ms} }
func Rm(p string, ms ...string) dOp { return dOp{"remove", p, ms} }

var (
	stdIC  = gen.ICSets[1]
	noneIC = gen.ICSets[0]
)

func directedHist(id, focus string, ics gen.ICSet, trace bool, ops []dOp, probes ...probe) Directed {
	return Directed{ID: id, Run: func(c *Ctx) { runDirectedHistory(c, focus, ics, trace, ops, probes) }}
}

func g(path string) probe { return probe{Method: "GET", Path: path, Kind: "extra"} }

func c03Directed() []Directed {
	six := []dOp{H("/s/a", "GET"), H("/s/b", "GET"), H("/s/c", "GET"), H("/s/d", "GET"), H("/s/e", "GET"), H("/s/f", "GET"), H("/s/{p}", "GET")}
	top := []dOp{H("a", "GET"), H("b", "GET"), H("c", "GET"), H("d", "GET"), H("e", "GET"), H("f", "GET")}
	return []Directed{
		directedHist("stale-index-hides-param-sibling", "C03", noneIC, false, append(append([]dOp{}, six...), Rm("/s/a")), g("/s/7"), g("/s/a"), g("/s/f"), g("/s/fx")),
		directedHist("clean-with-toplevel-index", "C03", noneIC, false, append(append([]dOp{}, top...), dOp{op: "clean"}), g("a"), g("f"), g("zz")),
		directedHist("clean-then-readd", "C03", noneIC, false, append(append(append([]dOp{}, top...), dOp{op: "clean"}), H("g", "GET"), H("{x}", "GET")), g("a"), g("g"), g("7")),
		directedHist("remove-empty-method-name", "C03", noneIC, false, hOps(H("/x", "GET"), Rm("/x", "")), probe{Method: "PUT", Path: "/x"}),
		directedHist("remove-head-by-name", "C03", noneIC, false, hOps(H("/x", "GET"), Rm("/x", "HEAD")), probe{Method: "HEAD", Path: "/x"}),
		directedHist("trace-phantom-route", "C03", noneIC, true, hOps(H("/a", "GET"), H("/a/b", "GET"), Rm("/a"))),
		directedHist("prefix-clean-keeps-siblings", "C03", stdIC, false, hOps(H("/p/a", "GET"), H("/p/b", "POST"), H("/q/{n:digit}", "GET"), H("/pp", "GET"), dOp{op: "pclean", pattern: "/p/"}), g("/pp"), g("/q/7")),
		directedHist("prefix-clean-inside-node", "C03", noneIC, false, hOps(H("/abc/x", "GET"), H("/abd/y", "GET"), H("/ab", "GET"), dOp{op: "pclean", pattern: "/abc"}), g("/abd/y"), g("/ab")),
	}
}

func c04Directed() []Directed {
	return []Directed{
		directedHist("allow-frozen-after-split", "C04", noneIC, false, hOps(H("/posts/author", "GET"), H("/posts/abc", "GET"), H("/posts/author", "POST"))),
		directedHist("options-star-fresh-router", "C04", noneIC, false, hOps(Rm("/nothing"))),
		directedHist("options-star-fresh-router-trace", "C04", noneIC, true, hOps(Rm("/nothing"))),
		directedHist("options-star-after-remove-pattern", "C04", noneIC, false, hOps(H("/x", "GET"), Rm("/x"))),
		directedHist("options-star-after-clean", "C04", noneIC, false, hOps(H("/x", "GET", "PUT"), H("/y", "DELETE"), dOp{op: "clean"})),
		directedHist("options-star-remove-absent-method", "C04", noneIC, false, hOps(H("/a", "GET"), Rm("/a", "POST"), H("/b", "POST"))),
		directedHist("options-star-counter-two-routes", "C04", noneIC, false, hOps(H("/a", "GET"), H("/b", "GET"), Rm("/a", "GET"))),
		directedHist("trace-ghost-after-removing-methods-by-name", "C04", noneIC, true, hOps(H("/posts", "GET", "POST"), H("/posts/{id}", "GET"), Rm("/posts", "GET"), Rm("/posts", "POST"))),
		directedHist("allow-after-method-removed", "C04", noneIC, true, hOps(H("/a/{id}", "GET", "POST"), H("/a/{id}/x", "PUT"), Rm("/a/{id}", "GET"))),
	}
}

func c17Directed() []Directed {
	return []Directed{
		directedHist("valid-prefix-of-list-installed", "C17", noneIC, false, hOps(H("/p", "GET", "BOGUS")), probe{Method: "OPTIONS", Path: "/p"}, g("/p")),
		directedHist("duplicate-after-valid-method", "C17", noneIC, false, hOps(H("/p", "POST", "PUT"), H("/p", "GET", "POST")), g("/p")),
		directedHist("rejected-call-leaves-split", "C17", noneIC, false, hOps(H("/u/{id}/author", "GET"), H("/u/{id}/abc", "OPTIONS")), g("/u/7/a/author"), g("/u/7/author")),
		directedHist("reserved-method-last", "C17", noneIC, true, hOps(H("/t", "GET", "TRACE")), g("/t")),
		directedHist("retry-after-rejected-methods", "C17", noneIC, false, hOps(H("/users/{id}/posts", "GET", "BOGUS"), H("/users/{name}/posts", "GET"), H("/users/{id}/posts", "GET")), g("/users/7/posts")),
		directedHist("rejected-new-pattern-beside-live-route", "C17", noneIC, false, hOps(H("/posts/{id}/author", "GET"), H("/posts/{id}/books", "GET", "GET")), g("/posts/a/b/author"), g("/posts/a/books")),
		directedHist("rejected-new-pattern-changes-priority", "C17", noneIC, false, hOps(H(`/posts/{name:\w+}/author`, "GET"), H(`/posts/{id:\d+}/author`, "GET"), H(`/posts/{id:\d+}/books`, "POST", "GET", "POST")), g("/posts/1/author")),
		directedHist("twin-of-only-route", "C17", noneIC, false, hOps(H("/u/{id}", "GET"), H("/u/{name}", "GET"))),
		directedHist("twin-by-white-space-in-the-name", "C17", noneIC, false, hOps(H("/posts/{id}", "GET"), H("/posts/{id }", "POST")), g("/posts/7")),
		directedHist("twin-ignore-flag", "C17", noneIC, false, hOps(H("/u/{id}/x", "GET"), H("/u/{-id}/x", "POST"))),
		directedHist("non-twin-never-ambiguous", "C17", noneIC, false, hOps(H("/u/{id}/x", "GET"), H("/u/{name}/y", "GET"), H(`/u/{id:\d+}/x`, "GET"))),
		directedHist("non-utf8-literal-after-regexp", "C17", noneIC, false, hOps(H("/a/x", "GET"), H("/a/{d:\\d+}\xe4", "GET"))),
		directedHist("twin-of-route-emptied-by-method-removal", "C17", noneIC, false, hOps(H("/posts/{id}/a", "GET"), H("/posts/{id}/author", "GET"), Rm("/posts/{id}/a", "GET"), H("/posts/{uid}/a", "GET")), g("/posts/7/a")),
		directedHist("regexp-suffix-paren", "C17", noneIC, false, hOps(H("/a/x", "GET"), H(`/a/{id:\d+}(`, "GET")), g("/a/x"), g("/a/7(")),
	}
}

func init() {
	histCases := func(q, t int) func(string) int {
		return func(tier string) int {
			if tier == "thorough" {
				return t
			}
			return q
		}
	}
	Register(&Engine{
		ID:       "C03",
		Anchors:  []string{"tree.go:Remove", "node.go:clean", "node.go:buildIndexes", "node.go:removeNodes", "tree.go:Routes", "tree.go:Clean"},
		Cases:    histCases(4000, 120000),
		Run:      func(c *Ctx) { runHistory(c, "C03") },
		Directed: c03Directed,
		Rule: "case = history of 20-60 Handle/Remove/Clean/Prefix.Clean/Resource calls (router or facade) over a pool of 12-30 patterns with literal fans; after every step Routes() and ~100-150 probes (witness paths with digit values x methods, tricky and index-targeting paths) are judged by the definite/maybe oracle and the two history clauses; " +
			"non-trivial (distinct by op sequence) = history with a removal issued while >=5 literal siblings were live or a removal that emptied a node which still has children",
		Floors: func(t string) map[string]int64 {
			if t == "quick" {
				return map[string]int64{"removal_with_5plus_literal_siblings": 100, "removal_emptied_node_with_children": 50, "judged_definite_winner": 50000, "judged_several_definite_candidates": 500, "history_clause_checked": 20000}
			}
			return map[string]int64{"removal_with_5plus_literal_siblings": 5000, "removal_emptied_node_with_children": 2500, "judged_definite_winner": 2500000, "judged_several_definite_candidates": 25000}
		},
		Assume: []string{
			"witness values are short digit strings and literals of this engine carry no digit (unique decomposition); winners that need a parameter to swallow literal text are conformance-checked but not priority-judged (counted as unjudged)",
			"the table model mirrors only the calls the engine issued and the router's own accept/reject answer",
		},
	})
	Register(&Engine{
		ID:       "C04",
		Anchors:  []string{"method.go:buildMethods", "method.go:AllowHeader", "method.go:Methods", "method.go:recountMethods", "node.go:splitNode"},
		Cases:    histCases(4000, 400000),
		Run:      func(c *Ctx) { runHistory(c, "C04") },
		Directed: c04Directed,
		Rule: "case = same history generator as C03; after every step, for every live pattern, OPTIONS and an unregistered method on its witness path: Allow as written by the builder-captured node, Node().AllowHeader()/Methods() at dispatch, captured node Methods(), Routes() all compared (as sets) with the model; OPTIONS * on path \"*\" and \"\"; " +
			"non-trivial (distinct by op-sequence prefix) = the views were checked after a Remove/Clean step",
		Floors: func(t string) map[string]int64 {
			if t == "quick" {
				return map[string]int64{"allow_views_checked": 20000, "options_star_checked": 5000, "options_star_after_removal": 1000}
			}
			return map[string]int64{"allow_views_checked": 1000000, "options_star_checked": 250000}
		},
		Assume: []string{"HEAD may or may not be listed for OPTIONS * (as the property grants)"},
	})
	Register(&Engine{
		ID:      "C17",
		Anchors: []string{"tree.go:Add", "tree.go:checkMethods", "node.go:checkAmbiguous", "segment.go:Segment.IsAmbiguousPrefix", "method.go:addMethods"},
		Cases:   histCases(4000, 240000),
		Run: func(c *Ctx) {
			if c.R.Chance(1, 5) {
				c17SplitResidue(c)
				return
			}
			if c.R.Chance(1, 8) {
				c17RetryAfterRejection(c)
				return
			}
			runHistory(c, "C17")
		},
		Directed: c17Directed,
		Rule: "one case in ten = a scripted retry history (a call rejected for its method list, the name-only twin of its pattern registered, the corrected call repeated: decided on the table as it is then); one case in five = a scripted split-residue history on a fresh router (a route P with literal text after a parameter, a sibling Q that splits P's node inside that text, Q taken away again by Remove / method-by-method Remove / Prefix.Clean, in either registration order; then the name-only twin of P - the only other route - must be rejected and change nothing); otherwise case = same history generator with 30% Handle calls built to be rejected (bad method at any list position, duplicate of a live method, repeated method, name-only twin); every rejected call is bracketed by two snapshots (Routes() + all probes incl. tricky paths + Allow) that must be equal, and every accept/reject must be justified by the model; " +
			"non-trivial (distinct by live table + call) = rejected Handle on a non-empty table",
		Floors: func(t string) map[string]int64 {
			if t == "quick" {
				return map[string]int64{"rejected_handle_snapshot_compared": 1500, "op_handle_must-reject": 1000}
			}
			return map[string]int64{"rejected_handle_snapshot_compared": 80000}
		},
		Assume: []string{"a method repeated inside one list, and a name-only twin among several routes, may be accepted or rejected (the property only fixes the single-route case)"},
	})
	_ = mon.KRoute
}
