package eng

import (
	"fmt"
	"net/http"
	"net/url"
	"runtime"
	"strings"

	"github.com/issue9/mux/v9"
	"github.com/issue9/mux/v9/types"

	"verifharness/gen"
	"verifharness/mon"
	"verifharness/ref"
)

// C05: no request and no pattern string can crash the router.

var hostileMethods = []string{"GET", "POST", "OPTIONS", "HEAD", "TRACE", "", "get", "BOGUS", "GET ", "\x00", "CONNECT", "PATCH", "DELETE", "PUT", "OPTIONS\n", "*"}

func hostilePath(r *ref.R, pats []ref.Pattern) string {
	switch r.Intn(14) {
	case 0:
		return ""
	case 1:
		return "*"
	case 2:
		return string([]byte{byte(r.U64())})
	case 3:
		return string(r.Bytes(r.Range(1, 40)))
	case 4:
		return strings.Repeat(ref.Pick(r, []string{"/", "a", "/a", "{", "}", "7", "\xff"}), r.Range(1, 70000))
	case 5:
		s := gen.Path(r, pats)
		if len(s) > 0 && s[0] == '/' {
			return s[1:]
		}
		return "x" + s
	case 6:
		return gen.Path(r, pats) + string(r.Bytes(3))
	case 7:
		return ref.Pick(r, []string{"{", "}", "{}", "{id}", "/{", "//", "/*", "*/", "%", "%zz", "\x00", "/\x00/"})
	default:
		return gen.Path(r, pats)
	}
}

func hostileHost(r *ref.R) string {
	switch r.Intn(10) {
	case 0:
		return ""
	case 1:
		return "*"
	case 2:
		return string(r.Bytes(r.Range(1, 20)))
	case 3:
		return ref.Pick(r, []string{"[::1]", "[::1]:80", "[", "]", "[]", "[]:", ":", "::", ":80", "a:", "a:8x", "[::1", "::1]", "a.com:99999999999999999999", "example.net", "www.example.net", "EXAMPLE.net:80", "[:80", "[:",
			// characters whose lower-case form has fewer bytes (Kelvin sign, Angstrom sign), in front of a port: an offset found in one spelling does not fit the other
			"\u212a\u212a:80", "\u212a\u212a\u212a.example.com:8080", "\u212b.com:1", "[\u212a\u212a]:80", "\u0130.example.com:80", ":", ":80", "[]", "[]:443", ".", ".:80", "a.com.:80"})
	case 4:
		h := strings.Repeat("a.", r.Range(1, 3000)) + "com"
		switch r.Intn(4) { // long names in capitals, partly or wholly; with a port; bracketed
		case 0:
			h = strings.ToUpper(h)
		case 1:
			h = h[:len(h)/2] + strings.ToUpper(h[len(h)/2:])
		case 2:
			h = "Sub." + h + ":8080"
		}
		return h
	default:
		return ref.Pick(r, []string{"a.com", "API.example.com", "7.example.com", "x.y.example.com:8080", "EXAMPLE.COM", "b.com.", "é.com"})
	}
}

var patternAtoms = []string{"|", "|raw", "^", "$", "{", "}", "{}", "{:}", "{-}", "{-:}", "{id}", "{id:}", "{-id}", "{id:\\d+}", "{id:[}", "{id:(}", "{id:digit}", ":", "-", "/", "a", "\\", "{{", "}}", "}{", "{a}{b}", "{a:{b}}", "é", "\xff", "\x00", "*", "{id:a|b}", "{n:^x$}", "{id:a)|(b}", "{x:)(}", "{x:a)(b}", "{x:|}", "{x:()}", "{x:(?i)a}", "{-x:a)|(b}", "{x:.*}", "{x:\\d+}"}

func hostilePattern(r *ref.R) string {
	switch r.Intn(8) {
	case 0:
		return string(r.Bytes(r.Range(0, 12)))
	case 1:
		return strings.Repeat(ref.Pick(r, patternAtoms), r.Range(1, 40000))
	case 2, 3:
		var b strings.Builder
		for k := r.Range(1, 8); k > 0; k-- {
			b.WriteString(ref.Pick(r, patternAtoms))
		}
		return b.String()
	default:
		// grammar-aware mutation of a well-formed pattern
		p := []byte(gen.Pattern(r))
		for k := r.Range(1, 3); k > 0 && len(p) > 0; k-- {
			i := r.Intn(len(p))
			switch r.Intn(5) {
			case 0:
				p = append(p[:i], p[i+1:]...)
			case 1:
				p = append(p[:i], append([]byte(ref.Pick(r, patternAtoms)), p[i:]...)...)
			case 2:
				p[i] = byte(r.U64())
			case 3:
				p = append(p, p[i:]...)
			case 4:
				p[i] = ref.Pick(r, []byte{'{', '}', ':', '-'})
			}
		}
		return string(p)
	}
}

func isRuntimeError(v any) bool {
	_, ok := v.(runtime.Error)
	return ok
}

func short(s string) string {
	if len(s) > 120 {
		return fmt.Sprintf("%q...(%d bytes)", s[:120], len(s))
	}
	return fmt.Sprintf("%q", s)
}

// guard runs f and reports a panic as a C05 violation.
func guard(c *Ctx, what string, detail func() any, f func()) (panicked bool) {
	defer func() {
		if p := recover(); p != nil {
			panicked = true
			c.Violate(fmt.Sprintf("%s panicked: %v", what, p), detail())
		}
	}()
	c.Eval()
	f()
	return false
}

func runC05(c *Ctx) {
	r := c.R
	ics := gen.ICSets[r.Intn(len(gen.ICSets))]
	var extra []mux.Option
	switch r.Intn(4) { // option combinations: CORS (allow-all / origin list), recovery off (a panic must stay visible)
	case 0:
		extra = append(extra, mux.WithAllowedCORS(3600))
	case 1:
		extra = append(extra, mux.WithCORS([]string{"https://a.example"}, []string{"X-A"}, []string{"X-B"}, 10, true))
	case 2:
		extra = append(extra, mux.WithDenyCORS(), mux.WithURLDomain("https://x.io/"))
	}
	s := NewSys(ics, r.Chance(1, 3), r.Chance(1, 4), extra...)
	pool := gen.Hostile.Table(r, r.Range(4, 24))
	// regexp rules with groups of their own (optional, nested, alternations), with and without the ignored-name flag:
	// a group that takes no part in a match must not upset the capture bookkeeping
	groupPats := []string{`/docs/{-lang:(en|de)?}index.html`, `/v/{-minor:\d+(\.\d+)?}/info`, `/w/{ver:\d+(\.\d+)?}/info`, `/g/{-x:(a(b)?)?c}`, `/h/{y:(a|b)*}z/{-t:(q)?}`}
	if r.Chance(1, 3) {
		pool = append(pool, groupPats...)
	}
	var ops []opRec
	for i := r.Range(4, 40); i > 0; i-- {
		live := s.LivePatterns()
		switch x := r.Intn(100); {
		case x < 60 || len(live) == 0:
			p := ref.Pick(r, pool)
			ms := randomMethods(r, s)
			via := randomVia(r, p)
			if ok, pv, h := s.Handle(p, ms, via); !ok {
				if _, isErr := pv.(error); !isErr || isRuntimeError(pv) {
					c.Violate(fmt.Sprintf("Handle (through %s) panicked with a non-error or runtime fault: %T %v", via, pv, pv), map[string]any{"pattern": short(p), "methods": ms})
				}
			} else if h != nil && r.Bool() {
				// a handler that does what handlers may do with a ResponseWriter, in any order: headers before and after
				// WriteHeader and Write, several writes, text - none of it may crash the router (HEAD goes through its wrapper)
				h.Prog = genProgPlain(r)
			}
			ops = append(ops, opRec{Op: "Handle", Pattern: p, Methods: ms})
		case x < 80:
			p := ref.Pick(r, live)
			ms := []string{}
			if r.Bool() {
				ms = []string{ref.Pick(r, hostileMethods)}
			}
			s.Remove(p, Via{}, ms...)
			ops = append(ops, opRec{Op: "Remove", Pattern: p, Methods: ms})
		case x < 86:
			s.Clean()
			ops = append(ops, opRec{Op: "Clean"})
		default:
			p := ref.Pick(r, live)
			cut := gen.Cut(r, p)
			s.PrefixClean(p[:cut])
			ops = append(ops, opRec{Op: "Prefix.Clean", Pattern: p[:cut]})
		}
	}
	livePats := s.LiveParsed()
	info := func(extra map[string]any) func() any {
		return func() any {
			m := map[string]any{"icset": ics.Name, "trace": s.Trace, "ops": ops}
			for k, v := range extra {
				m[k] = v
			}
			return m
		}
	}

	// (1) requests with arbitrary bytes against the table reached by the history
	groupPaths := []string{"/docs/index.html", "/docs/enindex.html", "/v/1/info", "/v/1.2/info", "/w/1/info", "/w/1.25/info", "/g/c", "/g/ac", "/g/abc", "/h/z/", "/h/abz/q", "/h/z/q"}
	for k := 0; k < 40 && !c.Violated(); k++ {
		q := mon.Req{Method: ref.Pick(r, hostileMethods), Path: hostilePath(r, livePats), Host: hostileHost(r)}
		if k < len(groupPaths) {
			q.Path = groupPaths[k]
		}
		switch r.Intn(4) {
		case 0:
			q.Header = map[string]string{"Accept": string(r.Bytes(r.Range(0, 30))), "Origin": string(r.Bytes(5))}
		case 1: // preflight-shaped, also on paths that match nothing and with garbage in the CORS request headers
			q.Method = ref.Pick(r, []string{"OPTIONS", "OPTIONS", "GET", "options"})
			q.Header = map[string]string{"Origin": ref.Pick(r, []string{"https://a.example", "null", "", string(r.Bytes(4))}),
				"Access-Control-Request-Method":  ref.Pick(r, []string{"GET", "DELETE", "", "get", string(r.Bytes(3)), "*"}),
				"Access-Control-Request-Headers": ref.Pick(r, []string{"", "X-A", "x-a, ,", ",", string(r.Bytes(6))})}
		}
		o := mon.Do(s.R, q)
		c.Eval()
		if o.Panicked {
			c.Violate(fmt.Sprintf("Router.ServeHTTP panicked: %v", o.Panic), info(map[string]any{"method": short(q.Method), "path": short(q.Path)})())
		} else if o.NilHandler {
			c.Violate("Router.ServeHTTP handed a nil handler to the CallFunc", info(map[string]any{"method": short(q.Method), "path": short(q.Path), "observed": obsBrief(o)})())
		}
		wellFormed := (q.Method == "GET" || q.Method == "POST") && strings.HasPrefix(q.Path, "/") && !strings.ContainsAny(q.Path, "\x00\xff")
		if !wellFormed {
			c.Class("request_outside_wellformed_space")
			c.Nontrivial("req|" + q.Method + "|" + q.Path)
		}
		if q.Path == "" || q.Path == "*" {
			c.Class("request_star_or_empty_path")
		}
	}

	// (1b) index-targeting requests: a prefix of some pool pattern followed by a byte that starts (or once started) a sibling
	for k := 0; k < 30 && !c.Violated(); k++ {
		p := ref.Pick(r, pool)
		cut := gen.Cut(r, p)
		if inToken(p, cut) {
			continue
		}
		path := p[:cut] + ref.Pick(r, gen.FanBytes) + ref.Pick(r, []string{"", "x", "/", "7"})
		o := mon.Do(s.R, mon.Req{Method: "GET", Path: path})
		c.Eval()
		if o.Panicked || o.NilHandler {
			c.Violate(fmt.Sprintf("Router.ServeHTTP panicked or nil handler on %q: %v", path, o.Panic), info(map[string]any{"path": short(path)})())
		}
	}

	// (2) Group with Hosts / version matchers, and the matchers alone
	env := s.Env
	grp := env.NewGroup()
	var hosts *mux.Hosts
	guard(c, "NewHosts", info(nil), func() {
		hosts = mux.NewHosts(r.Bool(), "a.com", "{sub}.example.com", "api.example.com", "b.example.com", "c.example.com", "d.example.com", "e.example.com", `{-www:(www\.)?}example.net`)
	})
	if hosts != nil && r.Bool() {
		hosts.Delete(ref.Pick(r, []string{"a.com", "b.example.com", "{sub}.example.com", "zzz"}))
	}
	pv := mux.NewPathVersion("ver", "v1", "/v11/", "v2/x")
	hv := mux.NewHeaderVersion("ver", "", func(error) {}, "1", "2")
	// one router serves in two groups (a migration: added to the new group first, removed from the old one later)
	var shared *mux.Router[*mon.Hnd]
	grp2 := mon.NewEnv().NewGroup()
	guard(c, "Group.New/Add", info(nil), func() {
		grp.New("h", hosts).Get("/x", env.NewHnd(mon.KRoute, "/x"))
		shared = grp.New("p", pv)
		shared.Get("/x", env.NewHnd(mon.KRoute, "/x"))
		grp.New("v", mux.AndMatcher(hv, mux.OrMatcher(hosts, pv))).Get("/{p}", env.NewHnd(mon.KRoute, "/{p}"))
		if r.Bool() {
			grp.New("catch-all-made-by-New", nil).Get("/x", env.NewHnd(mon.KRoute, "/x")) // a nil matcher accepts everything, through New as through Add
		}
		grp.Add(nil, s.R)
		grp2.Add(pv, shared)
	})
	for k := 0; k < 25 && !c.Violated(); k++ {
		if k == 8 && shared != nil && r.Bool() {
			guard(c, "Group.Remove", info(nil), func() { grp.Remove("p") })
			c.Class("router_shared_by_two_groups_removed_from_one")
		}
		q := mon.Req{Method: ref.Pick(r, hostileMethods), Path: hostilePath(r, livePats), Host: hostileHost(r)}
		switch r.Intn(4) {
		case 0:
			q.Header = map[string]string{"Accept": string(r.Bytes(r.Range(0, 40)))}
		case 1:
			q.Header = map[string]string{"Accept": ref.Pick(r, []string{"application/json; version=1", "text/html;version=\"2\"", ";", "a/b;version", "a/b;version=1;version=2", "application/json;VERSION=1", strings.Repeat("a", 5000) + "/b"})}
		}
		if r.Chance(1, 3) {
			q.Path = ref.Pick(r, []string{"/v1", "/v1/", "/v11/x", "/v2/x/x", "/v1//x", "v1/x"}) + q.Path
		}
		o := mon.Do(grp, q)
		c.Eval()
		if o.Panicked {
			c.Violate(fmt.Sprintf("Group.ServeHTTP panicked: %v", o.Panic), info(map[string]any{"method": short(q.Method), "path": short(q.Path), "host": short(q.Host), "header": fmt.Sprintf("%q", q.Header)})())
		} else if o.NilHandler {
			c.Violate("Group.ServeHTTP handed a nil handler to the CallFunc", info(map[string]any{"method": short(q.Method), "path": short(q.Path), "host": short(q.Host)})())
		}
		if o2 := mon.Do(grp2, q); o2.Panicked || o2.NilHandler {
			c.Violate(fmt.Sprintf("ServeHTTP of a second group that shares a router with the first panicked (%v) or handed out a nil handler", o2.Panic), info(map[string]any{"method": short(q.Method), "path": short(q.Path), "host": short(q.Host)})())
		}
		c.Class("group_request")
		c.Nontrivial("grp|" + q.Method + "|" + q.Path + "|" + q.Host)
		// matchers alone
		req := &http.Request{Method: q.Method, URL: &url.URL{Path: q.Path}, Host: q.Host, Header: http.Header{}}
		for hk, hvv := range q.Header {
			req.Header.Set(hk, hvv)
		}
		for name, m := range map[string]mux.Matcher{"Hosts.Match": hosts, "PathVersion.Match": pv, "HeaderVersion.Match": hv} {
			ctx := types.NewContext()
			if r.Bool() { // the object the pool's New function makes: it never owned a parameter map
				ctx.Destroy()
				ctx = &types.Context{}
			}
			guard(c, name, info(map[string]any{"path": short(q.Path), "host": short(q.Host), "header": fmt.Sprintf("%q", q.Header)}), func() { m.Match(req, ctx) })
			ctx.Destroy()
		}
	}

	// (3) pattern strings
	fresh := func() *mux.Router[*mon.Hnd] { return mon.NewEnv().NewRouter("f") }
	for k := 0; k < 30 && !c.Violated(); k++ {
		p := hostilePattern(r)
		det := info(map[string]any{"pattern": short(p)})
		var synErr error
		guard(c, "CheckSyntax", det, func() { synErr = mux.CheckSyntax(p) })
		params := map[string]string{}
		if r.Bool() {
			params = map[string]string{"id": "7", "a": "x", "b": "", "n": string(r.Bytes(3))}
		}
		guard(c, "mux.URL", det, func() { mux.URL(p, params) })
		guard(c, "Router.URL(strict=false)", det, func() { s.R.URL(false, p, params) })
		guard(c, "Router.URL(strict=true)", det, func() { s.R.URL(true, p, params) })
		// Handle on a fresh router without interceptors: register or panic with an error, agreeing with CheckSyntax
		c.Eval()
		fr := fresh()
		ok, v := tryHandle(fr, p, mon.NewEnv().NewHnd(mon.KRoute, p), []string{"GET"})
		if !ok {
			if _, isErr := v.(error); !isErr || isRuntimeError(v) {
				c.Violate(fmt.Sprintf("Handle panicked with a non-error or runtime fault: %T %v", v, v), det())
			}
		}
		if ok != (synErr == nil) {
			c.Violate(fmt.Sprintf("Handle accepted=%v but CheckSyntax error=%v on a router without interceptors", ok, synErr), det())
		}
		if ok {
			c.Class("pattern_accepted")
			// the registered pattern must be servable without a crash
			for _, path := range []string{p, "/b", "b", "/a", "ab", "/", "/7", "7", string(r.Bytes(r.Range(1, 6))), p + "x", strings.Trim(p, "{}")} {
				o := mon.Do(fr, mon.Req{Method: "GET", Path: path})
				c.Eval()
				if o.Panicked || o.NilHandler {
					c.Violate(fmt.Sprintf("request %q after Handle of a hostile pattern: panic=%v nil=%v", path, o.Panic, o.NilHandler), det())
					break
				}
			}
		} else {
			c.Class("pattern_rejected")
		}
		c.Nontrivial("pat|" + p)
		// Handle on the router with history: error value, never a runtime fault
		c.Eval()
		ok2, v2 := tryHandle(s.R, p, env.NewHnd(mon.KRoute, p), []string{"PUT"})
		if !ok2 {
			if _, isErr := v2.(error); !isErr || isRuntimeError(v2) {
				c.Violate(fmt.Sprintf("Handle on a populated router panicked with a non-error or runtime fault: %T %v", v2, v2), det())
			}
		} else {
			o := mon.Do(s.R, mon.Req{Method: "PUT", Path: p})
			if o.Panicked || o.NilHandler {
				c.Violate(fmt.Sprintf("request after Handle of a hostile pattern on a populated router: panic=%v nil=%v", o.Panic, o.NilHandler), det())
			}
			guard(c, "Remove", det, func() { s.R.Remove(p) })
		}
	}
	// (4) scale: one node with a literal child for (nearly) every first byte, under a random parent text; every one of them
	// is then requested, plus a neighbouring path that shares the first byte only
	if c.Case%25 == 3 {
		env := mon.NewEnv()
		wide := env.NewRouter("wide", mux.WithLock(r.Bool()))
		parent := ref.Pick(r, []string{"/", "", "/t/", "/{id}/"})
		bs := make([]int, 0, 256)
		for b := 1; b < 256; b++ {
			if b != '{' && b != '}' {
				bs = append(bs, b)
			}
		}
		ref.Shuffle(r, bs)
		bs = bs[:r.Range(120, len(bs))]
		reg := map[string]*mon.Hnd{}
		for _, b := range bs {
			p := parent + string([]byte{byte(b)}) + "-tag"
			h := env.NewHnd(mon.KRoute, p)
			if ok, v := tryHandle(wide, p, h, []string{"GET"}); ok {
				reg[p] = h
			} else if _, isErr := v.(error); !isErr || isRuntimeError(v) {
				c.Violate(fmt.Sprintf("Handle of one of many literal siblings panicked with a non-error or runtime fault: %T %v", v, v), info(map[string]any{"pattern": short(p)})())
			}
		}
		c.Class("wide_node_120plus_first_bytes")
		for p, h := range reg {
			path := strings.Replace(p, "{id}", "7", 1)
			o := mon.Do(wide, mon.Req{Method: "GET", Path: path})
			c.Eval()
			if o.Panicked || o.H == nil || o.H.Base != h {
				c.Violate(fmt.Sprintf("a literal sibling among %d is not served by its own handler (panic=%v status=%d)", len(reg), o.Panic, o.Status), info(map[string]any{"pattern": short(p), "path": short(path)})())
				break
			}
			if o2 := mon.Do(wide, mon.Req{Method: "GET", Path: path[:len(path)-1]}); o2.Panicked {
				c.Violate(fmt.Sprintf("request sharing only the first byte with one of %d literal siblings panicked: %v", len(reg), o2.Panic), info(map[string]any{"path": short(path[:len(path)-1])})())
				break
			}
		}
	}
	// canary: the router still serves
	o := mon.Do(s.R, mon.Req{Method: "GET", Path: "/canary"})
	if o.Panicked {
		c.Violate(fmt.Sprintf("canary request panicked: %v", o.Panic), info(nil)())
	}
	if c.WantSample("fuzz") {
		c.Sample("fuzz", map[string]any{"ops": ops, "example_request": short(hostilePath(r, livePats)), "example_pattern": short(hostilePattern(r))})
	}
}

func c05Directed() []Directed {
	req := func(id string, setup func(s *Sys), q mon.Req) Directed {
		return Directed{ID: id, Run: func(c *Ctx) {
			s := NewSys(noneIC, false, false)
			if setup != nil {
				setup(s)
			}
			o := mon.Do(s.R, q)
			c.Eval()
			if o.Panicked || o.NilHandler {
				c.Violate(fmt.Sprintf("%s: panic=%v nil_handler=%v", q.String(), o.Panic, o.NilHandler), nil)
			}
		}}
	}
	six := func(s *Sys) {
		for _, p := range []string{"a", "b", "c", "d", "e", "f"} {
			s.Handle(p, []string{"GET"}, Via{})
		}
	}
	return []Directed{
		req("get-star", nil, mon.Req{Method: "GET", Path: "*"}),
		req("get-empty-path", nil, mon.Req{Method: "GET", Path: ""}),
		req("post-star-with-routes", func(s *Sys) { s.Handle("/x", []string{"GET"}, Via{}) }, mon.Req{Method: "POST", Path: "*"}),
		req("clean-then-request", func(s *Sys) { six(s); s.Clean() }, mon.Req{Method: "GET", Path: "a"}),
		req("remove-then-removed-byte", func(s *Sys) { six(s); s.Handle("{p}", []string{"GET"}, Via{}); s.Remove("f", Via{}) }, mon.Req{Method: "GET", Path: "f"}),
		req("remove-405-key", func(s *Sys) { s.Handle("/x", []string{"GET"}, Via{}); s.Remove("/x", Via{}, "") }, mon.Req{Method: "PUT", Path: "/x"}),
	}
}

func init() {
	Register(&Engine{
		ID:       "C05",
		Anchors:  []string{"tree.go:Handler", "syntax.go:Interceptors.Split", "syntax.go:splitString", "segment.go:Interceptors.NewSegment", "match.go:Hosts.Match", "match.go:validOptionalPort", "match.go:pathVersion.Match", "match.go:headerVersion.Match", "mux.go:CheckSyntax", "mux.go:URL", "group.go:ServeHTTP"},
		Cases:    func(t string) int { return map[string]int{"quick": 3000, "thorough": 100000}[t] },
		Run:      runC05,
		Directed: c05Directed,
		Rule: "case = router reached by a random Handle/Remove/Clean history, then 40 requests with arbitrary method/path/host/header bytes (\"\", \"*\", no leading slash, 70 kB, non-UTF-8), 25 requests through a Group with Hosts/version/And/Or matchers and the matchers alone, 30 hostile pattern strings through CheckSyntax, URL, Router.URL and Handle (fresh and populated router); " +
			"non-trivial (distinct by input bytes) = request outside the well-formed GET/POST '/'-path space, any group request, any hostile pattern",
		Floors: func(t string) map[string]int64 {
			if t == "quick" {
				return map[string]int64{"request_outside_wellformed_space": 5000, "request_star_or_empty_path": 500, "group_request": 3000, "pattern_accepted": 1000, "pattern_rejected": 1000}
			}
			return map[string]int64{"request_outside_wellformed_space": 500000, "request_star_or_empty_path": 50000, "group_request": 300000}
		},
		Assume: []string{"the harness' own handlers, builders and middlewares never panic, so every recovered panic is the library's"},
	})
}
