package eng

import (
	"fmt"
	"sort"
	"strings"

	"github.com/issue9/mux/v9"

	"verifharness/gen"
	"verifharness/mon"
	"verifharness/ref"
)

// icOptions turns an interceptor set into mux options (same Go functions on both sides).
func init() {
	// rule texts the decoy siblings of a hostile container claim as accept-everything interceptors
	seen := map[string]bool{}
	for _, t := range gen.Tokens {
		if t.Rule != "" && !seen[t.Rule] {
			seen[t.Rule] = true
			mon.DecoyRules = append(mon.DecoyRules, t.Rule)
		}
	}
}

func icOptions(s gen.ICSet) []mux.Option {
	names := make([]string, 0, len(s.Funcs))
	for n := range s.Funcs {
		names = append(names, n)
	}
	sort.Strings(names)
	if s.Name == "builtin" {
		return []mux.Option{mux.WithDigitInterceptor("digit"), mux.WithWordInterceptor("word"), mux.WithAnyInterceptor("any")}
	}
	var o []mux.Option
	for _, n := range names {
		o = append(o, mux.WithInterceptor(mux.InterceptorFunc(s.Funcs[n]), n))
	}
	return o
}

// tryHandle calls Handle and reports whether it was accepted; the panic value is returned.
func tryHandle(r *mux.Router[*mon.Hnd], pattern string, h *mon.Hnd, ms []string, mws ...*mon.MW) (ok bool, pv any) {
	defer func() {
		if p := recover(); p != nil {
			ok, pv = false, p
		}
	}()
	var m []muxMW
	for _, x := range mws {
		m = append(m, x)
	}
	r.Handle(pattern, h, m, ms...)
	return true, nil
}

func fmtParams(m map[string]string) string {
	ks := make([]string, 0, len(m))
	for k := range m {
		ks = append(ks, k)
	}
	sort.Strings(ks)
	var b strings.Builder
	b.WriteString("{")
	for i, k := range ks {
		if i > 0 {
			b.WriteString(",")
		}
		fmt.Fprintf(&b, "%s:%q", k, m[k])
	}
	b.WriteString("}")
	return b.String()
}

func parseAll(pats []string, ic ref.Interceptors) []ref.Pattern {
	out := make([]ref.Pattern, 0, len(pats))
	for _, p := range pats {
		pp, cls := ref.Parse(p, ic)
		if cls != ref.SynOK {
			panic("generator produced malformed pattern " + p + ": " + cls.String())
		}
		out = append(out, pp)
	}
	return out
}

func obsBrief(o *mon.Obs) map[string]any {
	m := map[string]any{"status": o.Status, "node_nil": o.NodeNil, "node_pattern": o.NodePattern, "params": fmtParams(o.Params),
		"handler": o.H.String(), "router": o.RouterName, "path_seen": o.Path}
	if o.Panicked {
		m["panic"] = fmt.Sprint(o.Panic)
	}
	if o.NilHandler {
		m["nil_handler"] = true
	}
	return m
}
