package eng

import (
	"fmt"
	"sort"
	"strings"

	"github.com/issue9/mux/v9"

	"verifharness/gen"
	"verifharness/mon"
	"verifharness/ref"
)

// icOptions turns an interceptor set into mux options (same Go functions on both sides).
func init() {
	// rule texts the decoy siblings of a hostile container claim as accept-everything interceptors
	seen := map[string]bool{}
	for _, t := range gen.Tokens {
		if t.Rule != "" && !seen[t.Rule] {
			seen[t.Rule] = true
			mon.DecoyRules = append(mon.DecoyRules, t.Rule)
		}
	}
}

// Caller-owned slices. Every method list and middleware list handed to mux is the front part of a larger array whose
// hidden tail holds sentinels (the way `base := make([]T, 0, n)` / `append(base, x)` lists look in real programs). The
// library may read its argument; it must not write to it - neither to the visible part nor to the spare capacity, where
// another list of the caller may live. After the call the whole array is compared with what the caller put there.
type callerSliceModified struct{ what string }

func (e callerSliceModified) Error() string { return e.what }

type methodArena struct {
	all  []string
	n    int
	call string
}

func lendMethods(call string, ms []string) (*methodArena, []string) {
	all := make([]string, len(ms), len(ms)+3)
	copy(all, ms)
	all = append(all, "SENTINEL-A", "SENTINEL-B", "SENTINEL-C")
	return &methodArena{all: append([]string(nil), all...), n: len(ms), call: call}, all[:len(ms):len(all)]
}

// check panics (outside any recover of the engines: RunCase reports it) when lent differs from what was lent.
func (a *methodArena) check(lent []string) {
	full := lent[:cap(lent)]
	for i := range a.all {
		if full[i] != a.all[i] {
			panic(callerSliceModified{fmt.Sprintf("%s modified the caller's method list: element %d of the backing array (list length %d) was %q and is %q now - a list of the caller that shares the array is changed", a.call, i, a.n, a.all[i], full[i])})
		}
	}
}

type mwArena struct {
	all  []muxMW
	n    int
	call string
}

var mwSentinels = [3]muxMW{mon.NewEnv().MW("SENTINEL-A"), mon.NewEnv().MW("SENTINEL-B"), mon.NewEnv().MW("SENTINEL-C")}

func lendMiddlewares(call string, ms []muxMW) (*mwArena, []muxMW) {
	all := make([]muxMW, len(ms), len(ms)+3)
	copy(all, ms)
	all = append(all, mwSentinels[0], mwSentinels[1], mwSentinels[2])
	return &mwArena{all: append([]muxMW(nil), all...), n: len(ms), call: call}, all[:len(ms):len(all)]
}

func (a *mwArena) check(lent []muxMW) {
	full := lent[:cap(lent)]
	for i := range a.all {
		if full[i] != a.all[i] {
			panic(callerSliceModified{fmt.Sprintf("%s modified the caller's middleware list: element %d of the backing array (list length %d) was replaced - a list of the caller that shares the array is changed", a.call, i, a.n)})
		}
	}
}

// takeRoutes calls Routes() and treats the result the way a caller may: the harness keeps a deep copy for itself and
// then empties and overwrites the map it was given (its own now). A router that hands out part of its state - a cached
// map, a shared method list - shows the scribbles in what it (or another router) answers next.
func takeRoutes(rt *mux.Router[*mon.Hnd]) map[string][]string {
	got := rt.Routes()
	out := make(map[string][]string, len(got))
	for k, v := range got {
		out[k] = append([]string(nil), v...)
		for i := range v {
			v[i] = "SCRIBBLED-BY-CALLER"
		}
		delete(got, k)
	}
	if got != nil {
		got["/scribbled-by-caller"] = []string{"SCRIBBLED"}
	}
	return out
}

func icOptions(s gen.ICSet) []mux.Option {
	names := make([]string, 0, len(s.Funcs))
	for n := range s.Funcs {
		names = append(names, n)
	}
	sort.Strings(names)
	if s.Name == "builtin" {
		return []mux.Option{mux.WithDigitInterceptor("digit"), mux.WithWordInterceptor("word"), mux.WithAnyInterceptor("any")}
	}
	var o []mux.Option
	for _, n := range names {
		o = append(o, mux.WithInterceptor(mux.InterceptorFunc(s.Funcs[n]), n))
	}
	return o
}

// tryHandle calls Handle and reports whether it was accepted; the panic value is returned.
func tryHandle(r *mux.Router[*mon.Hnd], pattern string, h *mon.Hnd, ms []string, mws ...*mon.MW) (ok bool, pv any) {
	var m []muxMW
	for _, x := range mws {
		m = append(m, x)
	}
	am, lm := lendMiddlewares("Handle", m)
	as, ls := lendMethods("Handle", ms)
	func() {
		defer func() {
			if p := recover(); p != nil {
				ok, pv = false, p
			}
		}()
		r.Handle(pattern, h, lm, ls...)
		ok = true
	}()
	am.check(lm)
	as.check(ls)
	return ok, pv
}

func fmtParams(m map[string]string) string {
	ks := make([]string, 0, len(m))
	for k := range m {
		ks = append(ks, k)
	}
	sort.Strings(ks)
	var b strings.Builder
	b.WriteString("{")
	for i, k := range ks {
		if i > 0 {
			b.WriteString(",")
		}
		fmt.Fprintf(&b, "%s:%q", k, m[k])
	}
	b.WriteString("}")
	return b.String()
}

func parseAll(pats []string, ic ref.Interceptors) []ref.Pattern {
	out := make([]ref.Pattern, 0, len(pats))
	for _, p := range pats {
		pp, cls := ref.Parse(p, ic)
		if cls != ref.SynOK {
			panic("generator produced malformed pattern " + p + ": " + cls.String())
		}
		out = append(out, pp)
	}
	return out
}

func obsBrief(o *mon.Obs) map[string]any {
	m := map[string]any{"status": o.Status, "node_nil": o.NodeNil, "node_pattern": o.NodePattern, "params": fmtParams(o.Params),
		"handler": o.H.String(), "router": o.RouterName, "path_seen": o.Path}
	if o.Panicked {
		m["panic"] = fmt.Sprint(o.Panic)
	}
	if o.NilHandler {
		m["nil_handler"] = true
	}
	return m
}
