package eng

import (
	"errors"
	"fmt"
	"math"
	"net/http"
	"runtime"
	"strconv"
	"sync"

	"github.com/issue9/mux/v9"
	"github.com/issue9/mux/v9/types"

	"verifharness/mon"
	"verifharness/ref"
)

// C20: Params accessors agree with each other and with strconv.

var c20Values = []string{"", "0", "1", "-1", "+1", "-0", "007", "42", "9223372036854775807", "9223372036854775808", "-9223372036854775808", "-9223372036854775809",
	"18446744073709551615", "18446744073709551616", "1e309", "1e-400", "NaN", "nan", "Inf", "-Inf", "+Inf", "infinity", "0x10", "0b11", "0o7", "1_000", "1.5", ".5", "5.", "1e3", "true", "false", "TRUE", "True", "t", "f", "T", "F", "yes", "tRUE", "TRue", "fALSE", "falsE", "fal\u017fe", "tRuE", "On", "0x1", "1 ", " 1", "\xff", "１２", "١٢٣", "1\x00", "abc"}

var c20Keys = []string{"id", "", "a", "A", "id ", "名", "\xff", "k1", "k2", "k3", "a-very-long-key-name"}

func sameErr(a, b error) bool {
	if (a == nil) != (b == nil) {
		return false
	}
	if a == nil {
		return true
	}
	var na, nb *strconv.NumError
	if errors.As(a, &na) && errors.As(b, &nb) {
		return na.Func == nb.Func && na.Num == nb.Num && errors.Is(na.Err, nb.Err)
	}
	return a.Error() == b.Error()
}

func sameFloat(a, b float64) bool {
	return a == b || (math.IsNaN(a) && math.IsNaN(b))
}

// compareAll checks every accessor against the map and strconv.
func c20Compare(c *Ctx, ctx *types.Context, m map[string]string, trail *[]string, first ...string) bool {
	bad := func(f string, a ...any) bool {
		c.Violate(fmt.Sprintf(f, a...), map[string]any{"ops": *trail, "model": fmtParams(m)})
		return false
	}
	ps := ctx.Params()
	if ps.Count() != len(m) {
		return bad("Count()=%d, %d parameters were captured", ps.Count(), len(m))
	}
	seen := map[string]string{}
	visits := 0
	ps.Range(func(k, v string) { seen[k] = v; visits++ })
	if visits != len(m) {
		return bad("Range made %d visits for %d parameters (a pair visited twice or skipped)", visits, len(m))
	}
	if fmtParams(seen) != fmtParams(m) {
		return bad("Range visits %s, captured %s", fmtParams(seen), fmtParams(m))
	}
	notExists := types.ErrParamNotExists()
	keys := append(append([]string{}, first...), c20Keys...) // the key just written/deleted is looked up first: the lookup right before the write was for it too
	for _, k := range keys {
		c.Eval()
		want, has := m[k]
		if v, ok := ps.Get(k); ok != has || v != want {
			return bad("Get(%q)=%q,%v expected %q,%v", k, v, ok, want, has)
		}
		if ps.Exists(k) != has {
			return bad("Exists(%q)=%v", k, !has)
		}
		s, err := ps.String(k)
		if has && (err != nil || s != want) || !has && (err != notExists || s != "") {
			return bad("String(%q)=%q,%v", k, s, err)
		}
		if got := ps.MustString(k, "dflt"); has && got != want || !has && got != "dflt" {
			return bad("MustString(%q)=%q", k, got)
		}
		// Int
		iv, ierr := ps.Int(k)
		if has {
			wv, werr := strconv.ParseInt(want, 10, 64)
			if iv != wv || !sameErr(ierr, werr) {
				return bad("Int(%q) on %q = %d,%v; strconv: %d,%v", k, want, iv, ierr, wv, werr)
			}
			if got := ps.MustInt(k, -77); werr == nil && got != wv || werr != nil && got != -77 {
				return bad("MustInt(%q) on %q = %d (strict error: %v)", k, want, got, werr)
			}
		} else if ierr != notExists || iv != 0 || ps.MustInt(k, -77) != -77 {
			return bad("Int/MustInt(%q) for an absent key: %d,%v", k, iv, ierr)
		}
		// Uint
		uv, uerr := ps.Uint(k)
		if has {
			wv, werr := strconv.ParseUint(want, 10, 64)
			if uv != wv || !sameErr(uerr, werr) {
				return bad("Uint(%q) on %q = %d,%v; strconv: %d,%v", k, want, uv, uerr, wv, werr)
			}
			if got := ps.MustUint(k, 77); werr == nil && got != wv || werr != nil && got != 77 {
				return bad("MustUint(%q) on %q = %d (strict error: %v)", k, want, got, werr)
			}
		} else if uerr != notExists || uv != 0 || ps.MustUint(k, 77) != 77 {
			return bad("Uint/MustUint(%q) for an absent key: %d,%v", k, uv, uerr)
		}
		// Bool
		bv, berr := ps.Bool(k)
		if has {
			wv, werr := strconv.ParseBool(want)
			if bv != wv || !sameErr(berr, werr) {
				return bad("Bool(%q) on %q = %v,%v; strconv: %v,%v", k, want, bv, berr, wv, werr)
			}
			for _, d := range []bool{true, false} {
				if got := ps.MustBool(k, d); werr == nil && got != wv || werr != nil && got != d {
					return bad("MustBool(%q,%v) on %q = %v (strict error: %v)", k, d, want, got, werr)
				}
			}
		} else if berr != notExists || bv || !ps.MustBool(k, true) || ps.MustBool(k, false) {
			return bad("Bool/MustBool(%q) for an absent key: %v,%v", k, bv, berr)
		}
		// Float
		fv, ferr := ps.Float(k)
		if has {
			wv, werr := strconv.ParseFloat(want, 64)
			if !sameFloat(fv, wv) || !sameErr(ferr, werr) {
				return bad("Float(%q) on %q = %v,%v; strconv: %v,%v", k, want, fv, ferr, wv, werr)
			}
			if got := ps.MustFloat(k, -7.5); werr == nil && !sameFloat(got, wv) || werr != nil && got != -7.5 {
				return bad("MustFloat(%q) on %q = %v (strict error: %v)", k, want, got, werr)
			}
		} else if ferr != notExists || fv != 0 || ps.MustFloat(k, -7.5) != -7.5 {
			return bad("Float/MustFloat(%q) for an absent key: %v,%v", k, fv, ferr)
		}
	}
	return true
}

// c20Traffic serves a few requests through a stand-alone router and through a group (one of them panics and is recovered).
func c20Traffic(r *ref.R) {
	env := mon.NewEnv()
	env.RecordMW = false
	rec := mux.WithRecovery(func(w http.ResponseWriter, v any) { w.WriteHeader(500) })
	rt := env.NewRouter("solo", rec)
	h := env.NewHnd(mon.KRoute, "/s/{a}/{b}")
	rt.Handle("/s/{a}/{b}", h, nil, "GET")
	boom := env.NewHnd(mon.KRoute, "/boom/{a}")
	boom.Panic = &mon.PanicSpec{Value: "x"}
	rt.Handle("/boom/{a}", boom, nil, "GET")
	g := env.NewGroup(rec)
	gr := g.New("in-group", mux.NewPathVersion("ver", "v1"))
	gr.Handle("/g/{id}", env.NewHnd(mon.KRoute, "/g/{id}"), nil, "GET")
	for k := r.Range(1, 4); k > 0; k-- {
		mon.Do(rt, mon.Req{Method: "GET", Path: "/s/1/2"})
		mon.Do(rt, mon.Req{Method: "GET", Path: "/boom/1"})
		mon.Do(g, mon.Req{Method: "GET", Path: "/v1/g/7"})
		mon.Do(g, mon.Req{Method: "GET", Path: "/nothing"})
	}
}

// c20Numeric: digit strings around and beyond the 64-bit ranges (18-24 digits, optional sign / leading zeros),
// and decimal / exponent forms; strconv is the oracle for all of them.
func c20Numeric(r *ref.R) string {
	n := r.Range(17, 24)
	b := make([]byte, 0, n+2)
	switch r.Intn(6) {
	case 0:
		b = append(b, '-')
	case 1:
		b = append(b, '+')
	case 2:
		b = append(b, '0', '0')
	}
	b = append(b, byte('1'+r.Intn(9)))
	for i := 1; i < n; i++ {
		b = append(b, byte('0'+r.Intn(10)))
	}
	switch r.Intn(8) {
	case 0:
		return string(b) + "." + string(byte('0'+r.Intn(10)))
	case 1:
		return string(b[:len(b)/2]) + "e" + fmt.Sprint(r.Intn(400))
	}
	return string(b)
}

// c20Churn: contexts change hands quickly between goroutines (the pool is process-wide): whoever holds one sees exactly
// what it stored in it, from NewContext to its own Destroy.
func c20Churn(c *Ctx) {
	const workers = 8
	var wg sync.WaitGroup
	var mu sync.Mutex
	var bad []string
	for g := 0; g < workers; g++ {
		wg.Add(1)
		go func(g int) {
			defer wg.Done()
			for i := 0; i < 4000; i++ {
				ctx := types.NewContext()
				id := fmt.Sprintf("g%d-%d", g, i)
				if n := ctx.Count(); n != 0 {
					mu.Lock()
					bad = append(bad, fmt.Sprintf("a context from the pool starts with %d parameters", n))
					mu.Unlock()
					return
				}
				ctx.Set("owner", id)
				ctx.Set("k"+id, "v")
				runtime.Gosched()
				v, ok := ctx.Get("owner")
				if n := ctx.Count(); !ok || v != id || n != 2 {
					mu.Lock()
					bad = append(bad, fmt.Sprintf("the holder of a context stored owner=%q and one more parameter; now Get(owner)=%q,%v Count=%d", id, v, ok, n))
					mu.Unlock()
					return
				}
				ctx.Destroy()
			}
		}(g)
	}
	wg.Wait()
	c.EvalN(workers * 4000)
	c.Class("pool_churn_between_goroutines")
	if len(bad) > 0 {
		c.Violate("contexts changing hands between goroutines: "+bad[0], map[string]any{"more": bad})
	}
}

func runC20(c *Ctx) {
	if c.Case%40 == 7 {
		c20Churn(c)
		if c.Violated() {
			return
		}
	}
	r := c.R
	var trail []string
	ctx := types.NewContext()
	if r.Chance(1, 3) {
		// the object the pool's New function makes when the pool is empty: it never owned a parameter map
		ctx.Destroy()
		ctx = &types.Context{}
		trail = append(trail, "ctx = &types.Context{}")
		c.Class("fresh_context_that_never_owned_a_map")
	}
	m := map[string]string{}
	if ctx.Count() != 0 {
		c.Violate("a context from the pool does not start empty", nil)
		return
	}
	if !c20Compare(c, ctx, m, &trail) { // every lookup answers "absent" before the first Set
		return
	}
	edge := false
	var pending []string
	for i := 0; i < 60 && !c.Violated(); i++ {
		touched := ref.Pick(r, c20Keys)
		switch x := r.Intn(20); {
		case x < 10:
			k, v := ref.Pick(r, c20Keys), ref.Pick(r, c20Values)
			if r.Chance(1, 6) {
				v = string(r.Bytes(r.Range(0, 6)))
			} else if r.Chance(1, 4) {
				v = c20Numeric(r)
			}
			if r.Bool() { // look the key up, then write it (what a handler does)
				if got, ok := ctx.Get(k); ok != (func() bool { _, h := m[k]; return h })() || got != m[k] {
					c.Violate(fmt.Sprintf("Get(%q)=%q,%v before a Set", k, got, ok), map[string]any{"ops": trail, "model": fmtParams(m)})
					return
				}
				trail = append(trail, fmt.Sprintf("Get(%q)", k))
			}
			ctx.Set(k, v)
			m[k] = v
			touched = k
			trail = append(trail, fmt.Sprintf("Set(%q,%q)", k, v))
			if _, err := strconv.ParseInt(v, 10, 64); err != nil {
				edge = true
			}
		case x < 13:
			k := ref.Pick(r, c20Keys)
			if r.Bool() {
				ctx.Exists(k)
			}
			ctx.Delete(k)
			delete(m, k)
			touched = k
			trail = append(trail, fmt.Sprintf("Delete(%q)", k))
		case x < 15:
			ctx.Reset()
			m = map[string]string{}
			trail = append(trail, "Reset()")
		case x < 18:
			// back to the pool and out again: must start empty, whatever was in it (and whatever other contexts did)
			n := r.Intn(40)
			for j := 0; j < n; j++ {
				ctx.Set(fmt.Sprintf("bulk%d", j), "v")
			}
			ctx.Path = "/left/over"
			ctx.SetRouterName("left-over")
			ctx.Destroy()
			if r.Bool() {
				// a holder that keeps using its reference after Destroy (a deferred logger, say) is wrong - but whoever gets the
				// object next still starts empty
				ctx.Set("written-after-destroy", "x")
				ctx.Path = "/written/after/destroy"
				trail = append(trail, "Set after Destroy")
			}
			others := []*types.Context{types.NewContext(), types.NewContext()}
			for _, o := range others {
				if o.Count() != 0 || o.Path != "" {
					c.Violate(fmt.Sprintf("a context obtained from the pool is not empty: Count=%d Path=%q", o.Count(), o.Path), map[string]any{"ops": trail})
					return
				}
			}
			others[0].Set("other", "1")
			ctx = types.NewContext()
			for _, o := range others {
				o.Destroy()
			}
			m = map[string]string{}
			trail = append(trail, fmt.Sprintf("Set x%d; Destroy(); NewContext()", n))
			c.Class("pool_roundtrip")
			if ctx.Count() != 0 || ctx.Path != "" || ctx.RouterName() != "" || ctx.Node() != nil {
				c.Violate(fmt.Sprintf("a context obtained from the pool is not empty: Count=%d Path=%q RouterName=%q", ctx.Count(), ctx.Path, ctx.RouterName()), map[string]any{"ops": trail})
				return
			}
		case x == 18:
			// contexts are pooled across the whole process: after real traffic through a Router and a Group
			// (incl. a recovered panic) two contexts taken from the pool are distinct objects and start empty
			c20Traffic(r)
			a, b := types.NewContext(), types.NewContext()
			c.Class("pool_after_router_and_group_traffic")
			if a == b || a.Count() != 0 || b.Count() != 0 || a.Path != "" || a.RouterName() != "" || a.Node() != nil || b.Node() != nil {
				c.Violate(fmt.Sprintf("after router/group traffic the pool hands out the same or a non-empty context: same=%v count=%d/%d router=%q", a == b, a.Count(), b.Count(), a.RouterName()), map[string]any{"ops": trail})
				return
			}
			a.Destroy()
			b.Destroy()
		default:
			// nothing: compare again
		}
		// the accessors are not always consulted after every single change: two or three changes in a row (a Delete and a
		// Set leave the count where it was) and only then a look - a view derived at the previous look must not survive
		pending = append(pending, touched)
		if i < 59 && r.Chance(1, 4) {
			c.Class("changes_without_a_look_in_between")
			continue
		}
		if !c20Compare(c, ctx, m, &trail, pending...) {
			return
		}
		pending = pending[:0]
	}
	ctx.Destroy()
	c.Class("sequence")
	if edge {
		c.Nontrivial(fmt.Sprint(trail))
	}
	if c.WantSample("ops") {
		n := len(trail)
		if n > 10 {
			n = 10
		}
		c.Sample("ops", trail[:n])
	}
}

func init() {
	Register(&Engine{
		ID:      "C20",
		Anchors: []string{"context.go:Context.Int", "context.go:Context.Uint", "context.go:Context.Bool", "context.go:Context.Float", "context.go:Context.Reset", "context.go:Context.Destroy", "context.go:NewContext", "context.go:Context.Range", "context.go:Context.Delete"},
		Cases:   func(t string) int { return map[string]int{"quick": 30000, "thorough": 2000000}[t] },
		Run:     runC20,
		Rule: "case = sequence of 60 Set/Delete/Reset/(fill, Destroy, NewContext) steps over keys incl. empty and non-UTF-8 ones and values from a pool of numeric edge cases (signs, overflow of int64/uint64/float64, NaN/Inf spellings, base prefixes, underscores, bool spellings, spaces, non-ASCII digits, raw bytes); after every step all accessors (Count, Get, Exists, String, Range, Int, Uint, Bool, Float and their Must* forms) for every pool key are compared with a Go map and strconv (value and error identity); " +
			"non-trivial (distinct by op sequence) = sequence that stored at least one value strconv.ParseInt rejects",
		Floors: func(t string) map[string]int64 {
			if t == "quick" {
				return map[string]int64{"sequence": 1400, "pool_roundtrip": 5000}
			}
			return map[string]int64{"sequence": 90000, "pool_roundtrip": 500000}
		},
		Assume: []string{"strconv is the definitional reference for the numeric accessors"},
	})
}
