package eng

import (
	"fmt"
	"sort"
	"strings"

	"verifharness/gen"
	"verifharness/mon"
	"verifharness/ref"
)

// The history engine drives Handle/Remove/Clean histories (directly and
// through Prefix/Resource) over a pattern pool and probes the router after
// every step. The same histories serve C03, C04, C08 (history part), C17 and
// C18 (Allow part); `focus` selects whose monitor raises violations.

type probe struct {
	Method string
	Path   string
	Owner  string // pool pattern the path was built from ("" for extra paths)
	Kind   string // witness | tricky | extra
}

type outcome struct {
	Status  int
	HID     int64 // base handler id, 0 = nil
	HKind   string
	Pattern string
	Params  string
	Allow   string // Allow header as sent
	Panic   string
}

func (o outcome) String() string {
	return fmt.Sprintf("status=%d handler=%d(%s) pattern=%q params=%s allow=%q panic=%q", o.Status, o.HID, o.HKind, o.Pattern, o.Params, o.Allow, o.Panic)
}

func toOutcome(o *mon.Obs) outcome {
	out := outcome{Status: o.Status, Pattern: o.NodePattern, Params: fmtParams(o.Params)}
	if o.H != nil {
		out.HID, out.HKind = o.H.Base.ID, o.H.Base.Kind
	}
	if o.Header != nil {
		out.Allow = strings.Join(mon.AllowSet(o.Header.Get("Allow")), ",")
	}
	if o.Panicked {
		out.Panic = fmt.Sprint(o.Panic)
	}
	return out
}

type opRec struct {
	Op      string   `json:"op"`
	Pattern string   `json:"pattern,omitempty"`
	Methods []string `json:"methods,omitempty"`
	Via     string   `json:"via,omitempty"`
	Result  string   `json:"result,omitempty"`
}

type hist struct {
	c              *Ctx
	focus          string
	s              *Sys
	pool           []string
	parsed         map[string]ref.Pattern
	probes         []probe
	prev           []outcome // outcomes of probes after the previous step
	ops            []opRec
	maxLitSiblings int
	emptied        []string // patterns that lost their last method through Remove(pattern, methods...)
}

func (h *hist) detail(extra map[string]any) map[string]any {
	m := map[string]any{"icset": h.s.ICS.Name, "trace": h.s.Trace, "lock": h.s.Lock, "ops": h.ops, "live": h.s.ExpectRoutes()}
	for k, v := range extra {
		m[k] = v
	}
	return m
}

func (h *hist) violate(msg string, extra map[string]any) {
	h.c.Violate(msg, h.detail(extra))
}

var allProbeMethods = []string{"GET", "POST", "DELETE", "PUT", "PATCH", "CONNECT", "TRACE", "HEAD", "OPTIONS", "BOGUS", ""}

func randomVia(r *ref.R, pattern string) Via {
	switch r.Intn(8) {
	case 0:
		return Via{Kind: 1, Cut: gen.Cut(r, pattern)}
	case 1:
		return Via{Kind: 2}
	case 2:
		a := r.Intn(len(pattern) + 1)
		b := a + r.Intn(len(pattern)-a+1)
		return Via{Kind: 3, Cut: a, Cut2: b}
	}
	return Via{}
}

func newHist(c *Ctx, focus string) *hist {
	r := c.R
	icsChoices := []gen.ICSet{gen.ICSets[0], gen.ICSets[1], gen.ICSets[1], gen.ICSets[2]}
	ics := icsChoices[r.Intn(len(icsChoices))]
	trace := r.Chance(1, 3)
	if focus == "C18" {
		trace = r.Chance(2, 3)
	}
	lock := r.Chance(1, 4)
	h := &hist{c: c, focus: focus, s: NewSys(ics, trace, lock), parsed: map[string]ref.Pattern{}}
	pl := gen.SimpleFor(ics)
	h.pool = pl.Table(r, r.Range(12, 30))
	c.Class("icset_" + ics.Name)
	if trace {
		c.Class("with_trace")
	}
	for i, p := range h.pool {
		pp, cls := ref.Parse(p, ics.Funcs)
		if cls != ref.SynOK {
			panic("bad pool pattern " + p)
		}
		h.parsed[p] = pp
		w, _ := Witness(pp, i)
		ms := []string{"GET", ref.Pick(r, allProbeMethods), ref.Pick(r, allProbeMethods)}
		for _, m := range ms {
			h.probes = append(h.probes, probe{Method: m, Path: w, Owner: p, Kind: "witness"})
		}
		// a tricky path: one parameter value contains the literal that follows it
		if pp.HasParams() && r.Chance(1, 2) {
			h.probes = append(h.probes, probe{Method: "GET", Path: trickyPath(r, pp), Owner: p, Kind: "tricky"})
		}
	}
	// extra paths: a prefix of some witness followed by a byte that starts (or
	// once started) a sibling; aimed at a stale first-byte index
	for k := 0; k < 30; k++ {
		p := ref.Pick(r, h.pool)
		w, _ := Witness(h.parsed[p], k)
		cut := r.Intn(len(w) + 1)
		path := w[:cut] + ref.Pick(r, pl.FanBytes) + ref.Pick(r, []string{"", "x", "/", "/q", "7"})
		if path == "*" {
			continue
		}
		h.probes = append(h.probes, probe{Method: "GET", Path: path, Kind: "extra"})
	}
	return h
}

func trickyPath(r *ref.R, p ref.Pattern) string {
	var b strings.Builder
	for i := range p.Toks {
		t := &p.Toks[i]
		if t.Kind == ref.KLit {
			b.WriteString(t.Lit)
			continue
		}
		next := ""
		if i+1 < len(p.Toks) {
			next = p.Toks[i+1].Lit
		}
		if r.Chance(1, 2) {
			b.WriteString("7" + next + "8")
		} else {
			b.WriteString("7")
		}
	}
	return b.String()
}

// literalSiblings: the largest number of live patterns that continue one
// common prefix with distinct literal bytes (evidence of first-byte-index use).
func literalSiblings(live []string) int {
	best := 0
	seenPrefix := map[string]bool{}
	for _, p := range live {
		for cut := 0; cut < len(p); cut++ {
			if inToken(p, cut) || p[cut] == '{' {
				continue
			}
			prefix := p[:cut]
			if seenPrefix[prefix] {
				continue
			}
			seenPrefix[prefix] = true
			next := map[byte]bool{}
			for _, q := range live {
				if len(q) > cut && q[:cut] == prefix && q[cut] != '{' {
					next[q[cut]] = true
				}
			}
			if len(next) > best {
				best = len(next)
			}
		}
	}
	return best
}

// judge is the general C03 oracle for one probe (definite/maybe matching).
func (h *hist) judge(p probe, o *mon.Obs, cache map[string][2][]string) {
	c, s := h.c, h.s
	c.Eval()
	fail := func(msg string) {
		def, maybe := s.Classify(p.Path)
		h.violate(msg, map[string]any{"probe": p, "observed": obsBrief(o), "definite": def, "maybe": maybe})
	}
	if o.Panicked {
		fail(fmt.Sprintf("request panicked: %v", o.Panic))
		return
	}
	if o.NilHandler {
		fail("nil handler dispatched")
		return
	}
	if s.Trace && p.Method == "TRACE" {
		if o.H == nil || o.H.Base != s.TraceH {
			fail("TRACE not answered by the configured TRACE handler")
		}
		return
	}
	if p.Path == "" || p.Path == "*" {
		return
	}
	cl, ok := cache[p.Path]
	if !ok {
		d, m := s.Classify(p.Path)
		cl = [2][]string{d, m}
		cache[p.Path] = cl
	}
	def, maybe := cl[0], cl[1]
	is404 := o.NodeNil || o.Status == 404
	switch {
	case len(def) == 0 && len(maybe) == 0:
		c.Class("judged_404_expected")
		if !is404 {
			fail("request served although no live pattern matches the path")
		} else if len(o.Params) != 0 {
			fail("404 carries parameters")
		}
		return
	case is404 && len(def) > 0:
		fail("live route no longer reachable: 404 although a live pattern definitely matches")
		return
	case is404:
		c.Class("unjudged_404_only_maybe_matches")
		return
	}
	P := o.NodePattern
	inDef := contains(def, P)
	if !inDef && !contains(maybe, P) {
		if s.Live[P] == nil {
			fail("request answered by a pattern that is not live (removed route still served)")
		} else {
			fail("request answered by a live pattern that does not match the path")
		}
		return
	}
	e := s.Live[P]
	if !e.Pat.Conforms(p.Path, o.Params, s.ICS.Funcs) {
		fail("path is not the answering pattern with the reported parameters")
		return
	}
	if inDef {
		c.Class("judged_definite_winner")
		if len(def) > 1 {
			c.Class("judged_several_definite_candidates")
		}
		caps, _ := s.definite(e.Pat, p.Path)
		if fmtParams(caps) != fmtParams(o.Params) {
			fail("parameters differ from the simple-value decomposition of the path")
			return
		}
		for _, q := range def {
			if q != P && beats(s.Live[q].Pat, e.Pat) {
				fail(fmt.Sprintf("winner %q is beaten by live %q under the kind priority", P, q))
				return
			}
		}
	} else {
		c.Class("unjudged_maybe_winner")
	}
	want, wantStatus := s.ExpectHandler(P, p.Method)
	if o.H == nil || want == nil || o.H.Base != want {
		fail(fmt.Sprintf("handler for (%q,%q) is %v, model expects %v (status %d)", P, p.Method, o.H, want, wantStatus))
		return
	}
	if o.Status != wantStatus {
		fail(fmt.Sprintf("status %d, model expects %d", o.Status, wantStatus))
	}
}

func contains(xs []string, x string) bool {
	for _, y := range xs {
		if y == x {
			return true
		}
	}
	return false
}

// probeAll runs the fixed probe list and returns the outcomes.
func (h *hist) probeAll(judge bool) []outcome {
	outs := make([]outcome, len(h.probes))
	cache := map[string][2][]string{}
	for i, p := range h.probes {
		o := mon.Do(h.s.R, mon.Req{Method: p.Method, Path: p.Path})
		outs[i] = toOutcome(o)
		if judge {
			h.judge(p, o, cache)
			if h.c.Violated() {
				return outs
			}
		}
	}
	return outs
}

// sweep probes every method on the witness path of the given patterns.
func (h *hist) sweep(pats []string) {
	cache := map[string][2][]string{}
	for _, p := range pats {
		pp, ok := h.parsed[p]
		if !ok {
			continue
		}
		w, _ := Witness(pp, indexOf(h.pool, p))
		for _, m := range allProbeMethods {
			o := mon.Do(h.s.R, mon.Req{Method: m, Path: w})
			h.judge(probe{Method: m, Path: w, Owner: p, Kind: "sweep"}, o, cache)
			if h.c.Violated() {
				return
			}
		}
	}
}

func indexOf(xs []string, x string) int {
	for i, y := range xs {
		if y == x {
			return i
		}
	}
	return 0
}

// checkAllow is the C04 monitor: five views of every live pattern's method set, and OPTIONS *.
func (h *hist) checkAllow() {
	c, s := h.c, h.s
	routes := takeRoutes(s.R)
	c.Eval()
	if msg := s.CompareRoutes(); msg != "" { // Routes() is one of the views: it must list exactly the live patterns
		h.violate(msg, nil)
		return
	}
	for _, p := range s.LivePatterns() {
		w, _ := Witness(s.Live[p].Pat, indexOf(h.pool, p))
		for _, m := range []string{"OPTIONS", "BOGUS"} {
			o := mon.Do(s.R, mon.Req{Method: m, Path: w})
			c.Eval()
			if o.Panicked || o.NilHandler || o.NodeNil {
				h.violate(fmt.Sprintf("%s on the witness path of live %q: panic/nil handler/404", m, p), map[string]any{"path": w, "observed": obsBrief(o)})
				return
			}
			Q := o.NodePattern
			want := s.AllowSet(Q)
			if want == nil {
				continue // answered by a non-live pattern: C03's business
			}
			views := map[string][]string{
				"Allow header (builder-captured node)": mon.AllowSet(o.Header.Get("Allow")),
				"Route.Node().AllowHeader()":           mon.AllowSet(o.NodeAllow),
				"Route.Node().Methods()":               mon.SortedCopy(o.NodeMethods),
				"Routes()":                             mon.SortedCopy(routes[Q]),
			}
			if o.H != nil && o.H.Base.Node != nil {
				views["captured node Methods()"] = mon.SortedCopy(o.H.Base.Node.Methods())
			}
			for name, got := range views {
				if !mon.EqualSets(got, want) {
					h.violate(fmt.Sprintf("%s of %q for %s = %v, registered set is %v", name, Q, m, got, want),
						map[string]any{"path": w, "method": m, "observed": obsBrief(o)})
					return
				}
			}
			c.Class("allow_views_checked")
		}
	}
	// OPTIONS * (path "*" and the empty path)
	g := s.GlobalMethods()
	for _, path := range []string{"*", ""} {
		o := mon.Do(s.R, mon.Req{Method: "OPTIONS", Path: path})
		c.Eval()
		if o.Panicked || o.NilHandler {
			h.violate("OPTIONS "+path+": panic or nil handler", map[string]any{"observed": obsBrief(o)})
			return
		}
		got := mon.AllowSet(o.Header.Get("Allow"))
		gotSet := map[string]bool{}
		for _, m := range got {
			gotSet[m] = true
		}
		must := []string{"OPTIONS"}
		if s.Trace {
			must = append(must, "TRACE")
		}
		for m := range g {
			must = append(must, m)
		}
		sort.Strings(must)
		for _, m := range must {
			if !gotSet[m] {
				h.violate(fmt.Sprintf("OPTIONS %q Allow=%v misses %s (registered somewhere: %v)", path, got, m, must), nil)
				return
			}
		}
		for _, m := range got {
			if m != "HEAD" && !contains(must, m) {
				h.violate(fmt.Sprintf("OPTIONS %q Allow=%v lists %s which no live route registers (live: %v)", path, got, m, must), nil)
				return
			}
		}
		c.Class("options_star_checked")
	}
}

// checkHead is the history part of C08: HEAD exactly as long as GET, OPTIONS for every live pattern.
func (h *hist) checkHead() {
	c, s := h.c, h.s
	routes := takeRoutes(s.R)
	// what Routes() says about the automatic methods: OPTIONS on every pattern it lists, HEAD exactly beside GET, and no
	// pattern that is not live (its GET/HEAD/OPTIONS are not served any more)
	for p, ms := range routes {
		if p == "*" {
			continue // the server-wide entry: C04's
		}
		e := s.Live[p]
		if e == nil {
			h.violate(fmt.Sprintf("Routes() lists %q %v, which has no method left: its HEAD and OPTIONS are not served", p, ms), nil)
			return
		}
		if !contains(ms, "OPTIONS") || contains(ms, "HEAD") != (e.M["GET"] != nil) || contains(ms, "GET") != (e.M["GET"] != nil) {
			h.violate(fmt.Sprintf("Routes()[%q]=%v, registered GET=%v", p, ms, e.M["GET"] != nil), nil)
			return
		}
		c.Class("routes_entry_head_options_checked")
	}
	for i, p := range h.pool {
		pp := h.parsed[p]
		w, _ := Witness(pp, i)
		og := mon.Do(s.R, mon.Req{Method: "GET", Path: w})
		oh := mon.Do(s.R, mon.Req{Method: "HEAD", Path: w})
		oo := mon.Do(s.R, mon.Req{Method: "OPTIONS", Path: w})
		c.Eval()
		for _, o := range []*mon.Obs{og, oh, oo} {
			if o.Panicked || o.NilHandler {
				h.violate("panic or nil handler", map[string]any{"path": w, "observed": obsBrief(o)})
				return
			}
		}
		if og.NodePattern != oh.NodePattern || og.NodeNil != oh.NodeNil {
			h.violate("GET and HEAD resolve to different routes", map[string]any{"path": w, "get": obsBrief(og), "head": obsBrief(oh)})
			return
		}
		if og.NodeNil {
			continue
		}
		Q := og.NodePattern
		e := s.Live[Q]
		if e == nil {
			continue
		}
		getLive := e.M["GET"] != nil
		if getLive {
			c.Class("head_with_get")
			if oh.H == nil || oh.H.Base != e.M["GET"] || og.H == nil || og.H.Base != e.M["GET"] {
				h.violate(fmt.Sprintf("HEAD on %q is not served by the GET handler", Q), map[string]any{"path": w, "get": obsBrief(og), "head": obsBrief(oh)})
				return
			}
		} else {
			c.Class("head_without_get")
			if oh.H == nil || oh.H.Base.Kind != mon.K405 {
				h.violate(fmt.Sprintf("HEAD on %q served although GET is not registered", Q), map[string]any{"path": w, "head": obsBrief(oh)})
				return
			}
		}
		if contains(routes[Q], "HEAD") != getLive {
			h.violate(fmt.Sprintf("Routes()[%q]=%v but GET live=%v", Q, routes[Q], getLive), nil)
			return
		}
		if contains(mon.AllowSet(oo.Header.Get("Allow")), "HEAD") != getLive {
			h.violate(fmt.Sprintf("Allow of %q = %q but GET live=%v", Q, oo.Header.Get("Allow"), getLive), nil)
			return
		}
		if oo.H == nil || oo.H.Base.Kind != mon.KOptions || oo.Status != 200 {
			h.violate(fmt.Sprintf("OPTIONS on live %q not answered by the automatic OPTIONS handler", Q), map[string]any{"options": obsBrief(oo)})
			return
		}
	}
}

// snapshot is the whole observable state used by C17.
func (h *hist) snapshot() (string, []outcome) {
	routes := takeRoutes(h.s.R)
	ks := make([]string, 0, len(routes))
	for k := range routes {
		ks = append(ks, k)
	}
	sort.Strings(ks)
	var b strings.Builder
	for _, k := range ks {
		fmt.Fprintf(&b, "%s=%v;", k, mon.SortedCopy(routes[k]))
	}
	return b.String(), h.probeAll(false)
}

func randomMethods(r *ref.R, s *Sys) []string {
	if r.Chance(1, 8) {
		return nil // Any
	}
	ms := append([]string(nil), gen.AnyMethods...)
	if !s.Trace && r.Chance(1, 5) {
		ms = append(ms, "TRACE")
	}
	ref.Shuffle(r, ms)
	return ms[:r.Range(1, 3)]
}

var badMethods = []string{"OPTIONS", "HEAD", "TRACE", "BOGUS", "", "get", "GET ", "PROPFIND"}

// step performs one random operation and returns what was touched (for the history clauses).
func (h *hist) step() (kind string, touched []string, rejected bool) {
	r, s := h.c.R, h.s
	live := s.LivePatterns()
	pick := func() string {
		if len(live) > 0 && r.Chance(3, 4) {
			return ref.Pick(r, live)
		}
		return ref.Pick(r, h.pool)
	}
	x := r.Intn(100)
	handleBad := 10
	if h.focus == "C17" {
		handleBad = 30
	}
	switch {
	case x < 45 || len(live) == 0:
		p := ref.Pick(r, h.pool)
		ms := randomMethods(r, s)
		via := randomVia(r, p)
		v, why := s.Verdict(p, ms)
		ok, pv, _ := s.Handle(p, ms, via)
		h.ops = append(h.ops, opRec{Op: "Handle", Pattern: p, Methods: ms, Via: via.String(), Result: fmt.Sprintf("accepted=%v verdict=%s %s", ok, v, why)})
		h.c.Class("op_handle_" + v.String())
		if !h.handleVerdict(p, ms, v, why, ok, pv) {
			return "stop", nil, !ok
		}
		return "handle", []string{p}, !ok
	case x < 45+handleBad:
		// a Handle that must (or may) be rejected: bad method somewhere in the list, duplicate, twin
		p := pick()
		var ms []string
		switch r.Intn(4) {
		case 0: // bad element at a random position among valid ones
			ms = randomMethods(r, s)
			if ms == nil {
				ms = []string{"GET"}
			}
			i := r.Intn(len(ms) + 1)
			ms = append(ms[:i:i], append([]string{ref.Pick(r, badMethods)}, ms[i:]...)...)
		case 1: // duplicate of a live method somewhere in the list
			ms = randomMethods(r, s)
			if e := s.Live[p]; e != nil && len(e.M) > 0 {
				for m := range e.M {
					ms = append(ms, m)
					break
				}
			} else {
				ms = append(ms, "HEAD")
			}
			ref.Shuffle(r, ms)
		case 2: // repeated inside the list
			ms = []string{"PUT", "PUT"}
			if r.Bool() {
				ms = []string{"GET", "POST", "GET"}
			}
		case 3: // a twin (names differ only) of a live pattern, or of one whose methods were removed one by one (its node may survive)
			if len(h.emptied) > 0 && r.Bool() {
				p = ref.Pick(r, h.emptied)
				h.c.Class("twin_of_pattern_emptied_by_method_removal")
			}
			p = twinOf(r, p)
			ms = randomMethods(r, s)
		}
		via := randomVia(r, p)
		v, why := s.Verdict(p, ms)
		var snapR string
		var snapP []outcome
		if h.focus == "C17" {
			snapR, snapP = h.snapshot()
		}
		ok, pv, _ := s.Handle(p, ms, via)
		h.ops = append(h.ops, opRec{Op: "Handle", Pattern: p, Methods: ms, Via: via.String(), Result: fmt.Sprintf("accepted=%v verdict=%s %s", ok, v, why)})
		h.c.Class("op_handle_" + v.String())
		if _, known := h.parsed[p]; !known && ok {
			// an accepted twin joins the pool so that it is probed from now on
			if pp, cls := ref.Parse(p, s.ICS.Funcs); cls == ref.SynOK {
				h.parsed[p] = pp
				h.pool = append(h.pool, p)
			}
		}
		if !h.handleVerdict(p, ms, v, why, ok, pv) {
			return "stop", nil, !ok
		}
		if !ok && h.focus == "C17" {
			h.c.Eval()
			h.c.Class("rejected_handle_snapshot_compared")
			if len(s.Live) > 0 {
				h.c.Nontrivial(fmt.Sprintf("%v|%s|%v", s.LivePatterns(), p, ms))
			}
			aR, aP := h.snapshot()
			if aR != snapR {
				h.violate("a rejected Handle changed Routes()", map[string]any{"before": snapR, "after": aR, "panic": fmt.Sprint(pv)})
				return "stop", nil, true
			}
			for i := range aP {
				if aP[i] != snapP[i] {
					h.violate("a rejected Handle changed a dispatch outcome", map[string]any{"probe": h.probes[i], "before": snapP[i].String(), "after": aP[i].String(), "panic": fmt.Sprint(pv)})
					return "stop", nil, true
				}
			}
		}
		return "handle", []string{p}, !ok
	case x < 45+handleBad+12:
		p := pick()
		via := randomVia(r, p)
		t := s.Remove(p, via)
		h.ops = append(h.ops, opRec{Op: "Remove", Pattern: p, Via: via.String()})
		return "remove", append(t, p), false
	case x < 45+handleBad+30:
		p := pick()
		var ms []string
		if e := s.Live[p]; e != nil && r.Chance(1, 4) {
			for m := range e.M { // exactly the live methods: the pattern dies, its node may stay as a prefix of others
				ms = append(ms, m)
			}
			sort.Strings(ms)
		}
		for k := r.Range(1, 3); k > 0 && len(ms) == 0; k-- {
			switch r.Intn(6) {
			case 0:
				ms = append(ms, ref.Pick(r, badMethods))
			case 1:
				ms = append(ms, ref.Pick(r, gen.Methods))
			default:
				if e := s.Live[p]; e != nil && len(e.M) > 0 {
					names := make([]string, 0, len(e.M))
					for m := range e.M {
						names = append(names, m)
					}
					sort.Strings(names)
					ms = append(ms, ref.Pick(r, names))
				} else {
					ms = append(ms, ref.Pick(r, gen.AnyMethods))
				}
			}
		}
		if r.Chance(1, 4) {
			// a name repeated in the list (two to four times), possibly of a method the pattern does not have: removing is idempotent
			rep := ref.Pick(r, append(append([]string{}, ms...), "TRACE", "CONNECT", "GET"))
			for k := r.Range(1, 3); k > 0; k-- {
				ms = append(ms, rep)
			}
			ref.Shuffle(r, ms)
			h.c.Class("remove_with_repeated_method_name")
		}
		via := randomVia(r, p)
		wasLive := s.Live[p] != nil
		t := s.Remove(p, via, ms...)
		if wasLive && s.Live[p] == nil {
			h.emptied = append(h.emptied, p)
		}
		h.ops = append(h.ops, opRec{Op: "Remove", Pattern: p, Methods: ms, Via: via.String()})
		return "remove", append(t, p), false
	case x < 45+handleBad+33:
		t := s.Clean()
		h.ops = append(h.ops, opRec{Op: "Clean"})
		return "clean", t, false
	default:
		p := pick()
		cut := gen.Cut(r, p)
		if r.Chance(1, 6) {
			cut = 0
		}
		t := s.PrefixClean(p[:cut])
		h.ops = append(h.ops, opRec{Op: "Prefix.Clean", Pattern: p[:cut]})
		return "clean", t, false
	}
}

// twinOf renames the parameters of a pattern (names only, or the '-' flag).
func twinOf(r *ref.R, p string) string {
	var b strings.Builder
	i := 0
	changed := false
	for i < len(p) {
		if p[i] != '{' {
			b.WriteByte(p[i])
			i++
			continue
		}
		end := strings.IndexByte(p[i:], '}') + i
		body := p[i+1 : end]
		name, rule := body, ""
		hasRule := false
		if k := strings.IndexByte(body, ':'); k >= 0 {
			name, rule, hasRule = body[:k], body[k+1:], true
		}
		if !changed || r.Bool() {
			changed = true
			if strings.HasPrefix(name, "-") && r.Bool() {
				name = name[1:]
			} else if r.Chance(1, 3) {
				name = "-" + strings.TrimPrefix(name, "-")
			} else if !hasRule && r.Chance(1, 3) {
				// a name that differs in white space only is another name (and the pattern a twin like any other). Only for
				// parameters without a rule: the name of a regexp parameter becomes the name of a capture group, and the
				// property does not say that every name must be usable there
				name = ref.Pick(r, []string{name + " ", " " + name, name + "\t"})
			} else {
				name = name + "q"
			}
		}
		b.WriteString("{" + name)
		if hasRule {
			b.WriteString(":" + rule)
		}
		b.WriteString("}")
		i = end + 1
	}
	return b.String()
}

// handleVerdict compares the router's accept/reject with the model's verdict.
// A disagreement is C17's (and C08's) business; other monitors end the history.
func (h *hist) handleVerdict(p string, ms []string, v Verdict, why string, ok bool, pv any) bool {
	if (v == MustAccept && ok) || (v == MustReject && !ok) || v == Either {
		if !ok {
			if _, isErr := pv.(error); !isErr {
				if h.focus == "C17" {
					h.violate(fmt.Sprintf("Handle panicked with a non-error value %T %v", pv, pv), nil)
				}
				return false
			}
		}
		return true
	}
	h.c.Class("ended_by_handle_disagreement")
	if h.focus == "C17" || (h.focus == "C08" && strings.HasPrefix(why, "reserved or unknown")) {
		if ok {
			h.violate(fmt.Sprintf("Handle(%q, %v) was accepted although the call must be rejected: %s", p, ms, why), nil)
		} else {
			h.violate(fmt.Sprintf("Handle(%q, %v) was rejected without justification (%v)", p, ms, pv), nil)
		}
	}
	return false
}

func runHistory(c *Ctx, focus string) {
	h := newHist(c, focus)
	r := c.R
	nops := r.Range(20, 60)
	judge := focus == "C03"
	if judge {
		h.prev = h.probeAll(true)
	}
	sawBigRemoval, sawEmptyWithChildren := false, false
	for i := 0; i < nops && !c.Violated(); i++ {
		liveBefore := h.s.LivePatterns()
		sibBefore := 0
		if focus == "C03" {
			sibBefore = literalSiblings(liveBefore)
		}
		kind, touched, _ := h.step()
		if kind == "stop" && focus == "C03" && !c.Violated() {
			// the router and the model disagree about a Handle call (C17's business): the history ends here, but whatever the
			// call was, the routes that were live before it are still listed
			if msg := h.s.CompareRoutes(); msg != "" {
				h.violate("after a Handle call the model cannot follow: "+msg, nil)
			}
		}
		if kind == "stop" || c.Violated() {
			break
		}
		switch focus {
		case "C03":
			c.Eval()
			if msg := h.s.CompareRoutes(); msg != "" {
				h.violate(msg, nil)
				return
			}
			cur := h.probeAll(true)
			if c.Violated() {
				return
			}
			h.sweep(touched)
			if c.Violated() {
				return
			}
			if kind == "remove" || kind == "clean" {
				if sibBefore >= 5 {
					sawBigRemoval = true
					c.Class("removal_with_5plus_literal_siblings")
				}
				for _, t := range touched {
					if h.s.Live[t] == nil && contains(liveBefore, t) {
						for _, q := range h.s.LivePatterns() {
							if strings.HasPrefix(q, t) && q != t {
								sawEmptyWithChildren = true
								c.Class("removal_emptied_node_with_children")
								break
							}
						}
					}
				}
				// history clauses: what was 404 stays 404; probes answered by an untouched route keep their outcome
				for k := range cur {
					pv := h.prev[k]
					c.Eval()
					if pv.Panic != "" {
						continue
					}
					if pv.Status == 404 && pv.Pattern == "" {
						if cur[k] != pv {
							h.violate("a request that was 404 before a removal is answered differently after it",
								map[string]any{"probe": h.probes[k], "before": pv.String(), "after": cur[k].String()})
							return
						}
						continue
					}
					if !contains(touched, pv.Pattern) && cur[k] != pv {
						h.violate("a removal changed the handling of a request that had been dispatched to an untouched route",
							map[string]any{"probe": h.probes[k], "before": pv.String(), "after": cur[k].String(), "touched": touched})
						return
					}
					c.Class("history_clause_checked")
				}
			}
			h.prev = cur
		case "C04", "C18":
			h.checkAllow()
			if kind != "handle" {
				c.Class("options_star_after_removal")
				c.Nontrivial(fmt.Sprintf("%v", h.ops))
			}
		case "C08":
			h.checkHead()
		case "C17":
			// the snapshot comparison happens inside step()
		}
	}
	if focus == "C03" && (sawBigRemoval || sawEmptyWithChildren) {
		c.Nontrivial(fmt.Sprintf("%v", h.ops))
	}
	if c.WantSample("history") && len(h.ops) > 0 {
		n := len(h.ops)
		if n > 12 {
			n = 12
		}
		c.Sample("history", map[string]any{"icset": h.s.ICS.Name, "trace": h.s.Trace, "pool": h.pool, "first_ops": h.ops[:n], "probes_per_step": len(h.probes)})
	}
}
