package eng

import (
	"fmt"
	"net/http"

	"github.com/issue9/mux/v9"
	"sort"
	"strconv"
	"strings"

	"verifharness/mon"
	"verifharness/ref"
)

// C08: automatic HEAD and OPTIONS behave like the methods they derive from.
// Programs part: a wire-faithful recorder compares HEAD with GET for generated
// handler write programs. History part: the history engine with focus C08.

var progKeys = []string{"X-A", "X-B", "Content-Type", "Cache-Control", "Content-Length", "Allow"}
var progCodes = []int{200, 201, 202, 204, 301, 404, 500}
var progSizes = []int{0, 1, 2, 7, 64, 1000, 4096}

func genProg(r *ref.R) *mon.Prog {
	p := genProgPlain(r)
	if r.Chance(1, 6) { // the handler panics somewhere (recovery will be configured)
		k := r.Intn(len(p.Steps) + 1)
		p.Steps = append(p.Steps[:k:k], append([]mon.Step{{Op: "panic"}}, p.Steps[k:]...)...)
		p.Steps = p.Steps[:k+1]
	}
	return p
}

func genProgPlain(r *ref.R) *mon.Prog {
	p := &mon.Prog{}
	for n := r.Intn(9); n > 0; n-- {
		switch r.Intn(11) {
		case 10: // edits a value in place (no Set/Add/Del): after the first Write it must stay invisible for HEAD as it is for GET
			p.Steps = append(p.Steps, mon.Step{Op: "edit", Key: ref.Pick(r, progKeys), Val: "edited" + fmt.Sprint(r.Intn(50))})
		case 0, 1:
			p.Steps = append(p.Steps, mon.Step{Op: "set", Key: ref.Pick(r, progKeys), Val: fmt.Sprint(r.Intn(50))})
		case 2:
			p.Steps = append(p.Steps, mon.Step{Op: "add", Key: ref.Pick(r, progKeys), Val: fmt.Sprint(r.Intn(50))})
		case 3:
			p.Steps = append(p.Steps, mon.Step{Op: "del", Key: ref.Pick(r, progKeys)})
		case 4, 5:
			p.Steps = append(p.Steps, mon.Step{Op: "status", Code: ref.Pick(r, progCodes)})
		default:
			if r.Chance(1, 3) { // text with multi-byte characters through io.WriteString: Content-Length counts bytes
				t := ref.Pick(r, []string{"中文", "héllo wörld", "ß", "日本語のテキスト\n", "plain ascii", "\u212a\u017f", "a\xffb"})
				p.Steps = append(p.Steps, mon.Step{Op: "write", N: len(t), Val: t})
				continue
			}
			p.Steps = append(p.Steps, mon.Step{Op: "write", N: ref.Pick(r, progSizes)})
		}
	}
	return p
}

func headerKey(h http.Header, skipCL bool) string {
	ks := make([]string, 0, len(h))
	for k := range h {
		if skipCL && k == "Content-Length" {
			continue
		}
		ks = append(ks, k)
	}
	sort.Strings(ks)
	var b strings.Builder
	for _, k := range ks {
		fmt.Fprintf(&b, "%s=%q;", k, h[k])
	}
	return b.String()
}

// progShape classifies a program for the evidence.
func progShape(p *mon.Prog) (explicitStatusFirst, writes int, lateHeader, lateStatus bool, bytes int) {
	sent := false
	for _, s := range p.Steps {
		switch s.Op {
		case "status":
			if !sent {
				explicitStatusFirst = 1
			} else {
				lateStatus = true
			}
			sent = true
		case "write":
			if !sent {
				sent = true
				if explicitStatusFirst == 0 {
					explicitStatusFirst = 2 // implicit header by first Write
				}
			}
			writes++
			bytes += s.N
		default:
			if sent {
				lateHeader = true
			}
		}
	}
	return
}

func checkHeadProgram(c *Ctx, p *mon.Prog, viaFacade int) {
	var opts []mux.Option
	panics := false
	for _, st := range p.Steps {
		if st.Op == "panic" {
			panics = true
		}
	}
	if panics {
		// HEAD combined with the recovery option: what the recovery function writes is part of the response for GET and HEAD alike
		opts = append(opts, mux.WithRecovery(func(w http.ResponseWriter, v any) {
			w.Header().Set("X-Recovered", "1")
			http.Error(w, "Internal Server Error", http.StatusInternalServerError)
		}))
		c.Class("program_panics_with_recovery")
	}
	s := NewSys(noneIC, false, false, opts...)
	pattern := "/p/{id}/x"
	var h *mon.Hnd
	// the GET handler is what the route was registered with, middlewares included (per route here; the facade's and, in a
	// third of the routers, one given to Use before): HEAD runs the same thing
	var mws []*mon.MW
	if len(p.Steps)%2 == 1 {
		mws = []*mon.MW{s.Env.MW("route-mw-1"), s.Env.MW("route-mw-2")}
		c.Class("head_of_a_route_with_middlewares")
	}
	switch viaFacade {
	case 1:
		_, _, h = s.Handle(pattern, []string{"GET"}, Via{Kind: 1, Cut: 3}, mws...)
	case 2:
		_, _, h = s.Handle(pattern, []string{"GET", "POST"}, Via{Kind: 2}, mws...)
	default:
		_, _, h = s.Handle(pattern, nil, Via{}, mws...)
	}
	h.Prog = p
	// the router is an http.Handler of its own and the member of a Group: HEAD is the same through both doors
	var serve http.Handler = s.R
	if len(p.Steps)%3 == 0 {
		g := s.Env.NewGroup()
		g.Add(nil, s.R)
		serve = g
		c.Class("head_served_through_a_group")
	}
	og := mon.Do(serve, mon.Req{Method: "GET", Path: "/p/7/x"})
	runsAfterGet := h.Runs.Load()
	oh := mon.Do(serve, mon.Req{Method: "HEAD", Path: "/p/7/x"})
	c.Eval()
	st1, writes, lateHeader, lateStatus, total := progShape(p)
	detail := func() any {
		return map[string]any{"program": p.String(), "GET": map[string]any{"status": og.Status, "headers_sent": headerKey(og.Header, false), "body_bytes": len(og.Body)},
			"HEAD": map[string]any{"status": oh.Status, "headers_sent": headerKey(oh.Header, false), "body_bytes": len(oh.Body)}}
	}
	if og.Panicked || oh.Panicked || og.NilHandler || oh.NilHandler {
		c.Violate("GET/HEAD panicked or nil handler", detail())
		return
	}
	if h.Runs.Load() != runsAfterGet+1 || runsAfterGet != 1 {
		c.Violate("HEAD did not run the GET handler exactly once", detail())
		return
	}
	if og.H != nil && oh.H != nil && strings.Join(og.H.Chain, ",") != strings.Join(oh.H.Chain, ",") {
		c.Violate(fmt.Sprintf("HEAD is served through the middlewares %v, GET through %v", oh.H.Chain, og.H.Chain), detail())
		return
	}
	if len(oh.Body) != 0 {
		c.Violate("HEAD delivered body bytes to the client", detail())
		return
	}
	if og.Status != oh.Status {
		c.Violate(fmt.Sprintf("HEAD status %d differs from GET status %d", oh.Status, og.Status), detail())
		return
	}
	if headerKey(og.Header, true) != headerKey(oh.Header, true) {
		c.Violate("HEAD sends different headers than GET (Content-Length aside)", detail())
		return
	}
	if st1 != 1 && !lateStatus && writes > 0 {
		// the handler wrote a body without sending the header itself
		handlerSetsCL := false
		for _, st := range p.Steps {
			if st.Key == "Content-Length" {
				handlerSetsCL = true
			}
		}
		if !handlerSetsCL {
			c.Class("implicit_header_content_length_checked")
			if panics {
				total = len(og.Body) // what the recovery function wrote belongs to the body as well (GET delivered exactly these bytes)
			}
			if got := oh.Header.Get("Content-Length"); got != strconv.Itoa(total) {
				c.Violate(fmt.Sprintf("HEAD Content-Length %q, %d body bytes were written without calling WriteHeader", got, total), detail())
				return
			}
		}
	}
	if lateHeader {
		c.Class("late_header_mutation")
	}
	if lateStatus {
		c.Class("late_status")
	}
	switch {
	case writes > 1:
		c.Class("multiple_writes")
	case writes == 0:
		c.Class("no_write")
	default:
		c.Class("single_write")
	}
	if len(p.Steps) > 0 {
		c.Nontrivial("prog|" + p.String())
	}
	if c.WantSample("program") && writes > 1 {
		c.Sample("program", detail())
	}
}

func runC08(c *Ctx) {
	if c.Case%2 == 0 {
		runHistory(c, "C08")
		c.Class("history_case")
		return
	}
	for k := 0; k < 60 && !c.Violated(); k++ {
		checkHeadProgram(c, genProg(c.R), c.R.Intn(3))
	}
	// reserved and unknown methods can never be registered by hand
	s := NewSys(noneIC, c.R.Bool(), false)
	for _, m := range []string{"HEAD", "OPTIONS", "BOGUS", "", "get"} {
		ms := []string{"GET", m}
		if c.R.Bool() {
			ms = []string{m}
		}
		v, why := s.Verdict("/r", ms)
		ok, _, _ := s.Handle("/r", ms, Via{})
		c.Eval()
		if ok || v != MustReject {
			c.Violate(fmt.Sprintf("Handle(/r, %v) accepted=%v (model: %s %s)", ms, ok, v, why), nil)
		}
		c.Class("reserved_method_rejected")
	}
	if s.Trace {
		if ok, _, _ := s.Handle("/r", []string{"TRACE"}, Via{}); ok {
			c.Violate("TRACE registered by hand although a TRACE handler is configured", nil)
		}
	}
}

// c08HugeBody: Content-Length stays the number of bytes written when that number needs nine and ten digits. Only HEAD
// is issued (nothing is copied): the handler writes one shared 32 MiB buffer several times without sending the header itself.
func c08HugeBody(c *Ctx) {
	buf := make([]byte, 32<<20)
	for _, sc := range []struct{ full, tail int }{{2, 32<<20 - 1}, {2, 32891136}, {3, 4}, {4, 0}, {64, 123}} {
		total := sc.full*len(buf) + sc.tail
		env := mon.NewEnv()
		rt := env.NewRouter("huge")
		h := env.NewHnd(mon.KRoute, "/huge")
		h.Run = func(w http.ResponseWriter, _ *http.Request, _ *mon.Hnd) {
			w.Header().Set("X-Huge", "1")
			for i := 0; i < sc.full; i++ {
				w.Write(buf)
			}
			w.Write(buf[:sc.tail])
		}
		rt.Handle("/huge", h, nil, "GET")
		o := mon.Do(rt, mon.Req{Method: "HEAD", Path: "/huge"})
		c.Eval()
		c.Class("huge_body_content_length")
		if got := o.Header.Get("Content-Length"); o.Panicked || got != strconv.Itoa(total) || len(o.Body) != 0 || o.Header.Get("X-Huge") != "1" {
			c.Violate(fmt.Sprintf("HEAD Content-Length %q, the handler wrote %d body bytes without calling WriteHeader (panic=%v, body bytes delivered=%d)", got, total, o.Panic, len(o.Body)), nil)
			return
		}
	}
}

func c08Directed() []Directed {
	prog := func(id string, steps ...mon.Step) Directed {
		return Directed{ID: id, Run: func(c *Ctx) { checkHeadProgram(c, &mon.Prog{Steps: steps}, 0) }}
	}
	w := func(n int) mon.Step { return mon.Step{Op: "write", N: n} }
	set := func(k, v string) mon.Step { return mon.Step{Op: "set", Key: k, Val: v} }
	st := func(code int) mon.Step { return mon.Step{Op: "status", Code: code} }
	return []Directed{
		prog("single-write", w(12)),
		prog("many-writes", w(1), w(0), w(4096), w(7)),
		prog("explicit-status-then-write", set("X-A", "1"), st(201), w(5)),
		prog("header-between-writes", w(3), set("X-A", "1"), w(4)),
		prog("status-after-write", w(3), st(404)),
		prog("no-write", set("X-B", "2")),
		{ID: "content-length-of-a-huge-body", Run: c08HugeBody},
		directedHist("head-removed-with-get", "C08", noneIC, false, hOps(H("/x", "GET", "POST"), Rm("/x", "GET"))),
		directedHist("head-cannot-be-removed-alone", "C08", noneIC, false, hOps(H("/x", "GET"), Rm("/x", "HEAD"))),
		directedHist("options-cannot-be-removed", "C08", noneIC, false, hOps(H("/x", "GET", "PUT"), Rm("/x", "OPTIONS"), Rm("/x", "PUT"))),
	}
}

func init() {
	Register(&Engine{
		ID:       "C08",
		Anchors:  []string{"router.go:headResponse.Write", "router.go:headResponse.WriteHeader", "tree.go:Remove", "method.go:addMethods"},
		Cases:    func(t string) int { return map[string]int{"quick": 5000, "thorough": 400000}[t] },
		Run:      runC08,
		Directed: c08Directed,
		Rule: "odd cases: 60 generated handler write programs (0-8 steps over set/add/del header, WriteHeader(code), Write(n), n in 0..4096) run under GET and HEAD on the same handler object through a wire-faithful recorder, plus reserved-method registrations; even cases: a Handle/Remove/Clean history with HEAD/GET/OPTIONS probes on every pool pattern after each step; " +
			"non-trivial (distinct by program text) = non-empty program",
		Floors: func(t string) map[string]int64 {
			if t == "quick" {
				return map[string]int64{"multiple_writes": 800, "implicit_header_content_length_checked": 500, "late_header_mutation": 1000, "late_status": 150, "head_with_get": 700, "head_without_get": 1000, "history_case": 50}
			}
			return map[string]int64{"multiple_writes": 80000, "implicit_header_content_length_checked": 50000, "head_with_get": 70000}
		},
		Assume: []string{"the recorder snapshots the header map at the first WriteHeader/Write that reaches it, or at handler return (what a client receives); 1xx status codes are not generated"},
	})
}
