package eng

import (
	"fmt"
	"sort"

	"verifharness/gen"
	"verifharness/mon"
	"verifharness/ref"
)

// C01: dispatch soundness. Every CallFunc invocation is checked for internal
// consistency (route live, handler identity, conformance walk, exact key set)
// on tables reached by Handle/Remove/Clean histories over the hostile pools.

type c01State struct {
	c    *Ctx
	s    *Sys
	pool []string
	ops  []opRec
}

func (st *c01State) fail(msg string, q mon.Req, o *mon.Obs) {
	st.c.Violate(msg, map[string]any{"request": q.String(), "observed": obsBrief(o), "icset": st.s.ICS.Name, "trace": st.s.Trace,
		"live": st.s.ExpectRoutes(), "ops": st.ops})
}

// checkDispatch is the C01 monitor for one request.
func (st *c01State) checkDispatch(q mon.Req) {
	c, s := st.c, st.s
	o := mon.Do(s.R, q)
	c.Eval()
	if o.Panicked {
		c.Class("panicked_request_left_to_C05")
		return
	}
	if o.Calls != 1 {
		st.fail(fmt.Sprintf("CallFunc invoked %d times for one request", o.Calls), q, o)
		return
	}
	if o.ParamsBad != "" {
		st.fail("params accessors disagree: "+o.ParamsBad, q, o)
		return
	}
	if o.NilHandler {
		st.fail("nil handler dispatched", q, o)
		return
	}
	if o.RouterName != "r" {
		st.fail("wrong router name reported", q, o)
		return
	}
	if o.Path != q.Path {
		st.fail("request path changed before the CallFunc", q, o)
		return
	}
	if s.Trace && q.Method == "TRACE" {
		c.Class("dispatch_trace")
		if o.H.Base != s.TraceH || len(o.Params) != 0 {
			st.fail("TRACE not answered by the configured handler without parameters", q, o)
		}
		return
	}
	if (q.Path == "" || q.Path == "*") && !o.NodeNil && o.NodePattern == "" {
		return // the server-wide node (OPTIONS *): its answers are C04's business
	}
	if o.NodeNil {
		c.Class("dispatch_404")
		if o.Status != 404 || o.H.Base.Kind != mon.K404 {
			st.fail("no route reported but the handler is not the not-found handler", q, o)
		} else if len(o.Params) != 0 {
			st.fail("a 404 reports route parameters", q, o)
		}
		return
	}
	P := o.NodePattern
	e := s.Live[P]
	if e == nil {
		st.fail("reported route is not a currently registered pattern", q, o)
		return
	}
	want, wantStatus := s.ExpectHandler(P, q.Method)
	if want == nil || o.H.Base != want {
		st.fail(fmt.Sprintf("handler %v is not the one registered for (%q,%q): model expects %v", o.H, P, q.Method, want), q, o)
		return
	}
	if o.Status != wantStatus {
		st.fail(fmt.Sprintf("status %d, expected %d", o.Status, wantStatus), q, o)
		return
	}
	switch o.H.Base.Kind {
	case mon.KRoute:
		c.Class("dispatch_route_handler")
	case mon.KOptions:
		c.Class("dispatch_options")
	case mon.K405:
		c.Class("dispatch_405")
	}
	// exact key set
	names := e.Pat.CaptureNames()
	if len(names) != len(o.Params) {
		st.fail(fmt.Sprintf("reported parameters %s are not exactly the capturing parameters %v of the pattern", fmtParams(o.Params), names), q, o)
		return
	}
	for _, n := range names {
		if _, ok := o.Params[n]; !ok {
			st.fail(fmt.Sprintf("parameter %q is missing (reported %s)", n, fmtParams(o.Params)), q, o)
			return
		}
	}
	// conformance walk
	if !e.Pat.Conforms(q.Path, o.Params, s.ICS.Funcs) {
		st.fail("request path is not the reported pattern with the reported parameter values", q, o)
		return
	}
}

func runC01(c *Ctx) {
	r := c.R
	ics := gen.ICSets[r.Intn(len(gen.ICSets))]
	s := NewSys(ics, r.Chance(1, 4), r.Chance(1, 5))
	st := &c01State{c: c, s: s}
	st.pool = gen.Hostile.Table(r, r.Range(6, 28))
	c.Class("icset_" + ics.Name)
	parsedPool := parseAll(st.pool, ics.Funcs)
	if r.Chance(1, 3) {
		// an ignored parameter spelled like a captured one of the same pattern. The router refuses such a pattern (then it
		// simply is no part of the table); one it accepts has to be dispatched soundly like any other, and so have the
		// routes around it - abandoning the ignored twin must not take the captured value with it
		pre := ref.Pick(r, []string{"/", "/tw/", "tw", "/a/b/"})
		n1, n2 := ref.Pick(r, []string{"id", "n", "名"}), ref.Pick(r, []string{"other", "m"})
		var twin string
		if r.Bool() {
			twin = pre + "{" + n1 + "}/{-" + n1 + `:\d+}/x`
		} else {
			twin = pre + "{-" + n1 + `:\d+}/{` + n1 + "}/x"
		}
		comp := pre + "{" + n1 + "}/{" + n2 + "}/y"
		if r.Bool() {
			comp = pre + "{" + n2 + "}/{" + n1 + "}/y"
		}
		parsedPool = append(parsedPool, parseAll([]string{comp}, ics.Funcs)...)
		st.pool = append(st.pool, twin, twin, comp, comp) // twice: they are picked often enough to be live together
		c.Class("pool_with_ignored_twin_of_captured_name")
	}
	nops := r.Range(8, 40)
	removed := false
	for i := 0; i < nops && !c.Violated(); i++ {
		live := s.LivePatterns()
		x := r.Intn(100)
		switch {
		case x < 8:
			// a call that has to be rejected (reserved/unknown/repeated method somewhere in the list): nothing of it may be served
			p := ref.Pick(r, st.pool)
			ms := randomMethods(r, s)
			if ms == nil {
				ms = []string{"GET"}
			}
			k := r.Intn(len(ms) + 1)
			ms = append(ms[:k:k], append([]string{ref.Pick(r, []string{"HEAD", "OPTIONS", "BOGUS", "", ms[0]})}, ms[k:]...)...)
			ok, _, _ := s.Handle(p, ms, randomVia(r, p))
			st.ops = append(st.ops, opRec{Op: "Handle(bad)", Pattern: p, Methods: ms, Result: fmt.Sprint(ok)})
			c.Class("rejected_handle_in_history")
		case x < 60 || len(live) == 0:
			p := ref.Pick(r, st.pool)
			ms := randomMethods(r, s)
			ok, _, _ := s.Handle(p, ms, randomVia(r, p))
			st.ops = append(st.ops, opRec{Op: "Handle", Pattern: p, Methods: ms, Result: fmt.Sprint(ok)})
		case x < 75:
			p := ref.Pick(r, live)
			s.Remove(p, randomVia(r, p))
			removed = true
			st.ops = append(st.ops, opRec{Op: "Remove", Pattern: p})
		case x < 90:
			p := ref.Pick(r, live)
			names := make([]string, 0, 8)
			for m := range s.Live[p].M {
				names = append(names, m)
			}
			sort.Strings(names)
			ms := []string{ref.Pick(r, names)}
			if r.Bool() {
				ms = append(ms, ref.Pick(r, gen.Methods))
			}
			s.Remove(p, Via{}, ms...)
			removed = true
			st.ops = append(st.ops, opRec{Op: "Remove", Pattern: p, Methods: ms})
		case x < 93:
			s.Clean()
			removed = true
			st.ops = append(st.ops, opRec{Op: "Clean"})
		default:
			p := ref.Pick(r, live)
			cut := gen.Cut(r, p)
			s.PrefixClean(p[:cut])
			removed = true
			st.ops = append(st.ops, opRec{Op: "Prefix.Clean", Pattern: p[:cut]})
		}
		if i%6 != 5 && i != nops-1 {
			continue
		}
		// a burst of hostile requests against the table reached so far
		rs := &ref.Resolver{Pats: s.LiveParsed(), IC: ics.Funcs}
		for k := r.Range(30, 60); k > 0 && !c.Violated(); k-- {
			var path string
			if r.Chance(1, 4) {
				path = gen.Path(r, parsedPool) // also from dead patterns
			} else {
				path = gen.Path(r, rs.Pats)
			}
			method := "GET"
			if r.Chance(1, 2) {
				method = ref.Pick(r, allProbeMethods)
			}
			st.checkDispatch(mon.Req{Method: method, Path: path})
			// non-triviality: the reference had to abandon an alternative after a capture
			if path != "" && path != "*" {
				outs := rs.Resolve(path)
				if rs.Abandoned > 0 {
					if len(outs) == 0 {
						c.Class("404_after_abandoned_capture")
					} else {
						c.Class("route_after_abandoned_capture")
					}
					c.Nontrivial(fmt.Sprintf("%v|%s|%s", s.LivePatterns(), method, path))
				}
			}
		}
	}
	if removed {
		c.Class("history_with_removal")
	}
	if c.WantSample("dispatch") {
		n := len(st.ops)
		if n > 8 {
			n = 8
		}
		c.Sample("dispatch", map[string]any{"icset": ics.Name, "pool": st.pool, "first_ops": st.ops[:n]})
	}
}

func c01Directed() []Directed {
	mk := func(id string, ics gen.ICSet, table []string, reqs ...mon.Req) Directed {
		return Directed{ID: id, Run: func(c *Ctx) {
			s := NewSys(ics, false, false)
			st := &c01State{c: c, s: s, pool: table}
			for _, p := range table {
				s.Handle(p, []string{"GET"}, Via{})
			}
			for _, q := range reqs {
				st.checkDispatch(q)
			}
		}}
	}
	get := func(p string) mon.Req { return mon.Req{Method: "GET", Path: p} }
	return []Directed{
		mk("stale-and-lost-param-on-backtrack", noneIC, []string{`/users/{id}/{page:\d+}`, "/users/{id}/{action}/log"}, get("/users/5/7/log"), get("/users/5/x/y")),
		mk("literal-suffix-treated-as-regexp", noneIC, []string{`/pages/{id:\d+}.html`}, get("/pages/5xhtml"), get("/pages/5.html")),
		mk("name-prefix-split", noneIC, []string{"+b{idx}/x", "+b{id}", "+bd/q"}, get("+bdd/q"), get("+b7/x")),
		mk("head-maps-to-get", noneIC, []string{"/h/{id}"}, mon.Req{Method: "HEAD", Path: "/h/7"}, mon.Req{Method: "PUT", Path: "/h/7"}, mon.Req{Method: "OPTIONS", Path: "/h/7"}),
		mk("empty-path-and-asterisk-are-no-routes", noneIC, []string{"/", "/{path}", "{w}"}, get(""), get("*"), mon.Req{Method: "POST", Path: ""}, mon.Req{Method: "HEAD", Path: ""}, mon.Req{Method: "PUT", Path: "*"}, get("/"), get("/x")),
		mk("ignored-twin-of-captured-name", noneIC, []string{`/{id}/{-id:\d+}/x`, "/{id}/{name}/y", `/v/{-id:\d+}/{id}/x`, "/v/{name}/{id}/y"}, get("/5/7/y"), get("/5/7/x"), get("/v/5/7/y"), get("/v/5/7/x")),
		mk("ignored-param-not-reported", stdIC, []string{"/i/{-y}/{n:digit}", "/i/{-y}/x"}, get("/i/a/7"), get("/i/a/x"), get("/i/a/b")),
	}
}

func init() {
	Register(&Engine{
		ID:       "C01",
		Anchors:  []string{"node.go:matchChildren", "segment.go:Segment.Match", "tree.go:Handler", "router.go:serveContext"},
		Cases:    func(t string) int { return map[string]int{"quick": 20000, "thorough": 1200000}[t] },
		Run:      runC01,
		Directed: c01Directed,
		Rule: "case = Handle/Remove/Clean/Prefix.Clean history (8-40 ops, router or facade) over a hostile pool of 6-28 patterns, with bursts of 30-60 requests (paths instantiated from live and dead patterns with tricky values, mutated, raw bytes; all methods) after every 6th op; evaluation = one CallFunc observation checked by the conformance monitor; " +
			"non-trivial (distinct by table+method+path) = the reference resolver abandoned >=1 parameter alternative after it had captured a value on the way to the outcome",
		Floors: func(t string) map[string]int64 {
			if t == "quick" {
				return map[string]int64{"route_after_abandoned_capture": 150, "404_after_abandoned_capture": 3000, "dispatch_route_handler": 4000, "dispatch_405": 6000, "dispatch_options": 500, "history_with_removal": 500}
			}
			return map[string]int64{"route_after_abandoned_capture": 12000, "404_after_abandoned_capture": 200000, "dispatch_route_handler": 300000}
		},
		Assume: []string{"panicking requests are left to C05/C03", "the answers of the server-wide node (OPTIONS *) are left to C04"},
	})
}
