package eng

import (
	"fmt"
	"net/http"
	"strings"

	"github.com/issue9/mux/v9"
	"github.com/issue9/mux/v9/types"

	"verifharness/gen"
	"verifharness/mon"
	"verifharness/ref"
)

var placeholderHnd = &mon.Hnd{Kind: mon.KRoute}

// C14: Hosts matcher - the normalised host resolves against the registered domains.

// normHost is the statement's normalisation: strip a valid ":port", strip one pair of brackets, lower-case.
func normHost(h string) string {
	if i := strings.LastIndexByte(h, ':'); i >= 0 {
		digits := true
		for _, b := range []byte(h[i+1:]) {
			if b < '0' || b > '9' {
				digits = false
			}
		}
		if digits {
			h = h[:i]
		}
	}
	if strings.HasPrefix(h, "[") && strings.HasSuffix(h, "]") {
		h = h[1 : len(h)-1]
	}
	return strings.ToLower(h)
}

var hostTokens = []gen.TokSpec{
	{Text: "{sub}", Name: "sub"}, {Text: "{s2}", Name: "s2"}, {Text: "{-y}", Name: "y"},
	{Text: "{n:digit}", Name: "n", Rule: "digit"}, {Text: "{w:word}", Name: "w", Rule: "word"}, {Text: "{m:any}", Name: "m", Rule: "any"},
	gen.Tokens[8], gen.Tokens[10], gen.Tokens[12], // {d:\d+} {o:\d*} {l:[a-z]+}
}

var hostPool = &gen.Pool{
	Tokens:   hostTokens,
	Literals: []string{".", ".com", ".example.com", "api", "a", "b", "www.", "-", "x.", "example", ".co.uk", "é.", "1", "a.b", ".org", "aa"},
	FanBytes: []string{"a", "b", "c", "d", "e", "f", "g", "h", "1", "2", "-", "z"},
}

var hostPoolSimple = &gen.Pool{
	Tokens:   []gen.TokSpec{hostTokens[0], hostTokens[1], hostTokens[2], hostTokens[3], hostTokens[4], hostTokens[5], hostTokens[6], hostTokens[7]},
	Literals: []string{".", ".com", ".example.com", "api", "a", "b", "www.", "-", "x.", "example", ".co.uk", ".org", "aa"},
	FanBytes: []string{"a", "b", "c", "d", "e", "f", "g", "h", "-", "z"},
}

func isHexish(s string) bool {
	if s == "" {
		return false
	}
	for i := 0; i < len(s); i++ {
		if !(s[i] >= '0' && s[i] <= '9' || s[i] >= 'a' && s[i] <= 'f') {
			return false
		}
	}
	return true
}

func randCase(r *ref.R, s string) string {
	b := []byte(s)
	for i, ch := range b {
		if ch >= 'a' && ch <= 'z' && r.Chance(1, 3) {
			b[i] = ch - 32
		}
	}
	return string(b)
}

// randCaseLiterals upper-cases letters outside {...} tokens only.
func randCaseLiterals(r *ref.R, p string) string {
	b := []byte(p)
	depth := 0
	for i, ch := range b {
		switch ch {
		case '{':
			depth++
		case '}':
			depth--
		default:
			if depth == 0 && ch >= 'a' && ch <= 'z' && r.Chance(1, 3) {
				b[i] = ch - 32
			}
		}
	}
	return string(b)
}

// randCaseNames is randCaseLiterals plus capitals in parameter names (never in rules: `\D` is not `\d`): domain names
// are case-insensitive as a whole, so `{Sub}.Example.com` is the domain `{sub}.example.com`.
func randCaseNames(r *ref.R, p string) string {
	b := []byte(randCaseLiterals(r, p))
	if r.Bool() {
		return string(b)
	}
	inName := false
	for i, ch := range b {
		switch {
		case ch == '{':
			inName = true
		case ch == ':' || ch == '}':
			inName = false
		case inName && ch >= 'a' && ch <= 'z' && r.Chance(1, 2):
			b[i] = ch - 32
		}
	}
	return string(b)
}

func decorateHost(r *ref.R, h string) (string, string) {
	port := ref.Pick(r, []string{"", "", ":80", ":", ":8080", ":8x", ":99999999999", "::", ":0"})
	cls := "port=" + port
	if r.Chance(1, 8) {
		h = "[" + h + "]"
		cls += " bracketed"
	}
	return randCase(r, h) + port, cls
}

func newHostsWith(ics gen.ICSet, lock bool) *mux.Hosts {
	hs := mux.NewHosts(lock)
	for name, f := range ics.Funcs {
		hs.RegisterInterceptor(mux.InterceptorFunc(f), name)
	}
	return hs
}

func tryAdd(hs *mux.Hosts, d string) (ok bool) {
	defer func() {
		if recover() != nil {
			ok = false
		}
	}()
	hs.Add(d)
	return true
}

func matchHost(hs *mux.Hosts, host string) (ok bool, params map[string]string, pan any) {
	ctx := types.NewContext()
	if len(host)%3 == 0 { // the object the pool's New function makes: it never owned a parameter map
		ctx.Destroy()
		ctx = &types.Context{}
	}
	defer ctx.Destroy()
	defer func() {
		if p := recover(); p != nil {
			pan = p
		}
	}()
	ok = hs.Match(&http.Request{Host: host}, ctx)
	params = map[string]string{}
	ctx.Range(func(k, v string) { params[k] = v })
	return
}

func c14AddOnly(c *Ctx) {
	r := c.R
	ics := stdIC
	table := hostPool.Table(r, r.Range(2, 20))
	var accepted []string
	lock := r.Bool()
	hs := (*mux.Hosts)(nil)
	// the other entry point: the first domain goes through the constructor (it is parsed before any interceptor is
	// registered, so only a domain without interceptor rules qualifies), in a random upper/lower-case spelling
	if d := table[0]; r.Bool() && !strings.Contains(d, ":digit}") && !strings.Contains(d, ":any}") && !strings.Contains(d, ":word}") {
		func() {
			defer func() { recover() }()
			hs = mux.NewHosts(lock, randCaseLiterals(r, d))
		}()
		if hs != nil {
			for name, f := range ics.Funcs {
				hs.RegisterInterceptor(mux.InterceptorFunc(f), name)
			}
			accepted = append(accepted, d)
			table = table[1:]
			c.Class("domain_given_to_the_constructor")
		}
	}
	if hs == nil {
		hs = newHostsWith(ics, lock)
	}
	for _, d := range table {
		if tryAdd(hs, randCaseNames(r, d)) {
			accepted = append(accepted, d)
		}
	}
	rs := &ref.Resolver{Pats: parseAll(accepted, ics.Funcs), IC: ics.Funcs}
	for k := 0; k < 40 && !c.Violated(); k++ {
		base := gen.Path(r, rs.Pats)
		host, cls := decorateHost(r, base)
		nh := normHost(host)
		if nh == "" || nh == "*" {
			continue
		}
		ok, params, pan := matchHost(hs, host)
		c.Eval()
		outs := rs.Resolve(nh)
		det := map[string]any{"domains": accepted, "host": host, "normalised": nh, "accepted": ok, "params": fmtParams(params)}
		switch {
		case pan != nil:
			c.Violate(fmt.Sprintf("Hosts.Match panicked: %v", pan), det)
		case ok != (len(outs) > 0):
			c.Violate(fmt.Sprintf("Hosts.Match=%v but the normalised host resolves=%v against the registered domains", ok, len(outs) > 0), det)
		case ok:
			good := false
			for _, x := range outs {
				if fmtParams(x.Params) == fmtParams(params) {
					good = true
				}
			}
			if !good {
				c.Violate("reported parameters are not those of an admissible domain pattern", det)
			}
			c.Class("addonly_accept")
		default:
			c.Class("addonly_reject")
			if len(params) != 0 {
				c.Violate("rejected host leaves parameters behind", det)
			}
		}
		c.Class("host_" + cls)
		if c.WantSample("host") && ok && host != nh {
			c.Sample("host", det)
		}
		if host != nh {
			c.Nontrivial("a|" + strings.Join(accepted, ",") + "|" + host)
		}
	}
}

func c14History(c *Ctx) {
	r := c.R
	ics := stdIC
	hs := newHostsWith(ics, r.Bool())
	pool := hostPoolSimple.Table(r, r.Range(8, 22))
	// Half of the histories register an interceptor for the rule `\d+` somewhere in the middle. It accepts any
	// non-empty text made of digits and letters a-f, so it differs from the regexp; it must only affect domains
	// added after the registration (a domain added before keeps its regexp meaning, also when its node is split later).
	late := gen.ICSet{Name: "std+late", Funcs: ref.Interceptors{"digit": ref.IsDigits, "any": ref.IsAny, "word": ref.IsWord, `\d+`: isHexish}}
	lateAt := -1
	if r.Bool() {
		lateAt = r.Range(3, 25)
	}
	model := &Sys{ICS: late, Live: map[string]*Entry{}, pcache: map[string]ref.Pattern{}}
	// A domain added after the registration is an interceptor domain, unless a node with the same text of the
	// older (regexp) kind still exists and is reused - the model cannot know, so such a domain is judged under
	// both readings: modelAlt keeps the regexp reading for every domain.
	modelAlt := &Sys{ICS: late, Live: map[string]*Entry{}, pcache: map[string]ref.Pattern{}}
	parsedOld := map[string]ref.Pattern{}
	parsed := map[string]ref.Pattern{}
	var probes []string // decorated once: the same Host string is probed after every step
	for i, p := range pool {
		pp, _ := ref.Parse(p, ics.Funcs)
		parsed[p] = pp
		parsedOld[p] = pp
		w, _ := Witness(pp, i)
		host, _ := decorateHost(r, w)
		if strings.HasPrefix(host, "[") { // brackets would be stripped: keep the witness shape
			host = w
		}
		probes = append(probes, host)
	}
	type res struct {
		ok     bool
		params string
	}
	var prev []res
	var ops []string
	// probes whose value is not a digit string: only an interceptor that replaced a regexp would accept them
	for i, p := range pool {
		if strings.Contains(p, `\d+}`) && i%2 == 0 {
			w, _ := Witness(parsed[p], i)
			probes = append(probes, strings.NewReplacer("7", "7f", "42", "c4", "123", "a1").Replace(w))
		}
	}
	for step := 0; step < 40 && !c.Violated(); step++ {
		if step == lateAt {
			hs.RegisterInterceptor(mux.InterceptorFunc(isHexish), `\d+`)
			ops = append(ops, "RegisterInterceptor(hexish, \\d+)")
			c.Class("interceptor_registered_mid_history")
			// from now on newly added domains parse `\d+` as an interceptor
			for _, q := range pool {
				if model.Live[q] == nil {
					pp, _ := ref.Parse(q, late.Funcs)
					parsed[q] = pp
				}
			}
			ics = late
		}
		p := ref.Pick(r, pool)
		deleted := ""
		if model.Live[p] != nil && r.Chance(1, 2) {
			name := randCase(r, p) // Delete in a different case than Add
			hs.Delete(name)
			delete(model.Live, p)
			delete(modelAlt.Live, p)
			deleted = p
			ops = append(ops, "Delete("+name+")")
			c.Class("delete")
			if name != p {
				c.Class("delete_in_other_case")
			}
		} else if model.Live[p] == nil {
			if ics.Name == "std+late" { // (re-)added after the registration: the interceptor applies to it
				pp, _ := ref.Parse(p, late.Funcs)
				parsed[p] = pp
			}
			name := randCaseNames(r, p)
			v, _ := model.Verdict(p, []string{"GET"})
			ok := tryAdd(hs, name)
			ops = append(ops, fmt.Sprintf("Add(%s)=%v", name, ok))
			if (v == MustAccept && !ok) || (v == MustReject && ok) {
				c.Violate(fmt.Sprintf("Hosts.Add(%q) accepted=%v, model %s", name, ok, v), map[string]any{"ops": ops})
				return
			}
			if ok {
				// the older (regexp) reading stays admissible for p only if a node that was parsed before the registration
				// can be on p's path: some live domain that still has the older reading shares p's text up to and
				// including the first `\d+}` token. Otherwise every node of p is new and p is an interceptor domain.
				alt := parsed[p]
				if i := strings.Index(p, `\d+}`); i >= 0 && ics.Name == "std+late" {
					prefix := p[:i+len(`\d+}`)]
					for q, e := range modelAlt.Live {
						if q != p && strings.HasPrefix(q, prefix) && fmt.Sprint(e.Pat) == fmt.Sprint(parsedOld[q]) && fmt.Sprint(parsedOld[q]) != fmt.Sprint(parsed[q]) {
							alt = parsedOld[p]
							c.Class("late_domain_may_reuse_an_older_node")
						}
					}
				} else {
					alt = parsedOld[p]
				}
				model.Live[p] = &Entry{Pat: parsed[p], M: map[string]*mon.Hnd{"GET": placeholderHnd}}
				modelAlt.Live[p] = &Entry{Pat: alt, M: map[string]*mon.Hnd{"GET": placeholderHnd}}
			}
		} else {
			continue
		}
		cur := make([]res, len(probes))
		for i, host := range probes {
			nh := normHost(host)
			ok, params, pan := matchHost(hs, host)
			cur[i] = res{ok, fmtParams(params)}
			c.Eval()
			defA, maybeA := model.Classify(nh)
			defB, maybeB := modelAlt.Classify(nh)
			var def []string // definitely matching under both readings
			for _, q := range defA {
				if contains(defB, q) {
					def = append(def, q)
				}
			}
			maybe := append(append(append([]string{}, maybeA...), maybeB...), append(defA, defB...)...)
			det := map[string]any{"ops": ops, "live": model.LivePatterns(), "host": host, "accepted": ok, "params": fmtParams(params), "definite": def, "maybe": maybe}
			switch {
			case pan != nil:
				c.Violate(fmt.Sprintf("Hosts.Match panicked: %v", pan), det)
			case len(def) > 0 && !ok:
				c.Violate("a registered domain no longer matches its own host", det)
			case len(def) == 0 && len(maybe) == 0 && ok:
				c.Violate("host accepted although no registered domain matches (deleted domain still served?)", det)
			case ok:
				good := false
				for _, q := range append(append([]string{}, def...), maybe...) {
					for _, pp := range []ref.Pattern{model.Live[q].Pat, modelAlt.Live[q].Pat} {
						if len(pp.CaptureNames()) == len(params) && pp.Conforms(nh, params, late.Funcs) {
							good = true
						}
					}
				}
				if !good {
					c.Violate("reported parameters fit no registered domain that matches the host", det)
				}
				c.Class("history_accept")
			default:
				c.Class("history_reject")
			}
			// Delete leaves every other domain matching as before
			if deleted != "" && prev != nil && !contains(def, deleted) && !contains(maybe, deleted) {
				dm, mm := false, false
				for _, pp := range []ref.Pattern{parsed[deleted], parsedOld[deleted]} {
					if _, d := model.definite(pp, nh); d {
						dm = true
					}
					if pp.Matches(nh, late.Funcs) {
						mm = true
					}
				}
				if !dm && !mm && prev[i] != cur[i] {
					c.Violate("Delete changed the result for a host the deleted domain does not match", map[string]any{"ops": ops, "host": host, "before": prev[i], "after": cur[i]})
				}
			}
		}
		prev = cur
		if deleted != "" {
			c.Nontrivial(strings.Join(ops, ";"))
		}
	}
}

func runC14(c *Ctx) {
	if c.Case%2 == 0 {
		c14AddOnly(c)
	} else {
		c14History(c)
	}
}

func c14Directed() []Directed {
	return []Directed{
		{ID: "delete-is-case-insensitive", Run: func(c *Ctx) {
			hs := mux.NewHosts(false, "api.example.com", "b.com")
			hs.Delete("API.example.com")
			c.Eval()
			if ok, _, _ := matchHost(hs, "api.example.com"); ok {
				c.Violate(`Delete("API.example.com") removed nothing: api.example.com still matches`, nil)
			}
			if ok, _, _ := matchHost(hs, "b.com"); !ok {
				c.Violate("Delete removed another domain", nil)
			}
		}},
		{ID: "delete-one-of-six-keeps-wildcard", Run: func(c *Ctx) {
			hs := mux.NewHosts(false, "a.example.com", "b.example.com", "c.example.com", "d.example.com", "e.example.com", "f.example.com", "{sub}.example.com")
			hs.Delete("a.example.com")
			c.Eval()
			if ok, p, _ := matchHost(hs, "zz.example.com"); !ok || p["sub"] != "zz" {
				c.Violate("wildcard domain stopped matching after deleting one of six literal domains", nil)
			}
			if ok, p, pan := matchHost(hs, "a.example.com"); pan != nil || !ok || p["sub"] != "a" {
				c.Violate(fmt.Sprintf("deleted literal host should now resolve to the wildcard: ok=%v params=%v panic=%v", ok, p, pan), nil)
			}
		}},
		{ID: "interceptor-registered-late-applies-to-new-nodes", Run: func(c *Ctx) {
			// a domain added before the rule `\d+` became an interceptor keeps its regexp; one added afterwards - the same
			// domain again after a Delete, or another domain with the same parameter text - is an interceptor domain,
			// whatever the matcher parsed earlier
			hex := func(s string) bool { return isHexish(s) }
			for _, second := range []string{"a.{id:\\d+}.example.com", "b.{id:\\d+}.example.com"} {
				hs := mux.NewHosts(false)
				hs.Add("a.{id:\\d+}.example.com")
				if ok, _, _ := matchHost(hs, "a.abc.example.com"); ok {
					c.Violate("regexp domain matches a non-digit host", nil)
					return
				}
				hs.RegisterInterceptor(hex, "\\d+")
				if second[0] == 'a' {
					hs.Delete(second)
				}
				hs.Add(second)
				host := second[:1] + ".abc.example.com"
				c.Eval()
				c.Class("late_interceptor_directed")
				if ok, p, _ := matchHost(hs, host); !ok || p["id"] != "abc" {
					c.Violate(fmt.Sprintf("domain %q was added after the rule \\d+ had been registered as an interceptor (accepting hex text), yet Match(%q)=%v params=%v", second, host, ok, p), nil)
					return
				}
			}
		}},
		{ID: "port-and-ipv6", Run: func(c *Ctx) {
			hs := mux.NewHosts(false, "::1", "example.com")
			for host, want := range map[string]bool{"[::1]:8080": true, "[::1]": true, "EXAMPLE.com:80": true, "example.com:": true, "example.com:8x": false, "example.com.": false} {
				c.Eval()
				if ok, _, _ := matchHost(hs, host); ok != want {
					c.Violate(fmt.Sprintf("Match(%q)=%v, expected %v", host, ok, want), nil)
				}
			}
		}},
	}
}

func init() {
	Register(&Engine{
		ID:       "C14",
		Anchors:  []string{"match.go:Hosts.Match", "match.go:Hosts.Add", "match.go:Hosts.Delete", "match.go:validOptionalPort", "match.go:Hosts.RegisterInterceptor"},
		Cases:    func(t string) int { return map[string]int{"quick": 10000, "thorough": 800000}[t] },
		Run:      runC14,
		Directed: c14Directed,
		Rule: "even cases: add-only domain sets (2-20 generated domain patterns, literal fans, std interceptors, random letter case at Add) x 40 Host strings (instantiated/mutated domains with random case, ports incl. invalid ones, brackets) compared with normaliser + C02 reference resolver (accept iff resolves, params in the admissible set); odd cases: Add/Delete histories (Delete in a different case) with digit-valued witness hosts judged by the definite/maybe discipline and the 'Delete leaves the rest as before' clause; " +
			"non-trivial (distinct) = host that differs from its normal form (case/port/brackets), or history step with a Delete",
		Floors: func(t string) map[string]int64 {
			if t == "quick" {
				return map[string]int64{"addonly_accept": 2000, "addonly_reject": 2000, "delete": 1500, "delete_in_other_case": 800, "history_accept": 20000}
			}
			return map[string]int64{"addonly_accept": 150000, "delete": 100000, "history_accept": 1500000}
		},
		Assume: []string{"hosts that normalise to \"\" or \"*\" are excluded (server-wide OPTIONS target)", "parameter tokens of generated domains are lower-case (Add lower-cases the whole pattern)"},
	})
}
