package eng

import (
	"fmt"
	"sort"
	"strings"

	"github.com/issue9/mux/v9"

	"verifharness/gen"
	"verifharness/mon"
	"verifharness/ref"
)

// C19: Prefix and Resource are pure shorthand for Router calls. A random facade
// program runs on router A; its translation into plain Router calls (written
// from the property text) runs on router B; all observations must agree.

type facadeObj struct {
	kind    string // prefix | resource
	from    string // the pool pattern this object's pattern was cut from
	pattern string
	mws     []string // as the facade stores them: own arguments first, then the parent's
	pA      *mux.Prefix[*mon.Hnd]
	rA      *mux.Resource[*mon.Hnd]
}

type c19World struct {
	c      *Ctx
	envA   *mon.Env
	envB   *mon.Env
	a      *mux.Router[*mon.Hnd]
	b      *mux.Router[*mon.Hnd]
	live   map[string]map[string]bool // model of the plain side: pattern -> methods
	tag    map[*mon.Hnd]int           // handler pairing across the two routers
	objs   []*facadeObj
	seq    int
	ops    []string
	pool   []string
	parsed []ref.Pattern
	depth  int
	lent   []lentMW
	poison muxMW
}

func (w *c19World) mws(env *mon.Env, names []string) []muxMW {
	var out []muxMW
	for _, n := range names {
		out = append(out, env.MW(n))
	}
	// lists given to the facade side are lent (sentinels in the spare capacity, see lendMiddlewares) and, once the call
	// has returned, overwritten by their owner
	if env == w.envA {
		a, lent := lendMiddlewares("a facade call", out)
		w.lent = append(w.lent, lentMW{a, lent})
		return lent
	}
	return out
}

func (w *c19World) settle() {
	if w.poison == nil {
		w.poison = w.envA.MW("POISON-the-callers-reused-slice")
	}
	for _, l := range w.lent {
		l.a.check(l.lent)
		for i := range l.lent {
			l.lent[i] = w.poison
		}
	}
	w.lent = w.lent[:0]
}

func (w *c19World) newNames(prefix string, n int) []string {
	var out []string
	for i := 0; i < n; i++ {
		w.seq++
		out = append(out, fmt.Sprintf("%s%d", prefix, w.seq))
	}
	return out
}

func guarded(f func()) (pv any) {
	defer func() { pv = recover() }()
	f()
	return nil
}

func (w *c19World) modelRemove(pattern string, methods []string) {
	e := w.live[pattern]
	if e == nil {
		return
	}
	if len(methods) == 0 {
		delete(w.live, pattern)
		return
	}
	for _, m := range methods {
		if isAnyMethod(m) {
			delete(e, m)
		}
	}
	if len(e) == 0 {
		delete(w.live, pattern)
	}
}

type c19Outcome struct {
	Status  int
	Tag     int
	Kind    string
	Pattern string
	Params  string
	Chain   string
	Allow   string
	Panic   string
}

func (w *c19World) observe(rt *mux.Router[*mon.Hnd], q mon.Req) c19Outcome {
	o, tr := mon.DoTrace(rt, q)
	out := c19Outcome{Status: o.Status, Pattern: o.NodePattern, Params: fmtParams(o.Params), Chain: strings.Join(tr, ">")}
	if o.H != nil {
		out.Kind = o.H.Base.Kind
		out.Tag = w.tag[o.H.Base]
	}
	if o.Header != nil {
		out.Allow = strings.Join(mon.AllowSet(o.Header.Get("Allow")), ",")
	}
	if o.Panicked {
		out.Panic = fmt.Sprint(o.Panic)
	}
	return out
}

func routesKey(rt *mux.Router[*mon.Hnd]) string {
	m := takeRoutes(rt)
	ks := make([]string, 0, len(m))
	for k := range m {
		ks = append(ks, k)
	}
	sort.Strings(ks)
	var b strings.Builder
	for _, k := range ks {
		fmt.Fprintf(&b, "%s=%v;", k, mon.SortedCopy(m[k]))
	}
	return b.String()
}

func (w *c19World) compareAll() {
	c := w.c
	w.settle()
	c.Eval()
	if ra, rb := routesKey(w.a), routesKey(w.b); ra != rb {
		c.Violate("Routes() of the facade-built router differs from the plain one", map[string]any{"program": w.ops, "facade": ra, "plain": rb})
		return
	}
	// the server-wide answers: OPTIONS * (Allow set), TRACE to some path, a request nothing matches
	for _, q := range []mon.Req{{Method: "OPTIONS", Path: "*"}, {Method: "TRACE", Path: "/anything/7"}, {Method: "GET", Path: "/nothing/matches/this"}} {
		oa, ob := w.observe(w.a, q), w.observe(w.b, q)
		c.Eval()
		if oa != ob {
			c.Violate("a server-wide answer of the facade-built router differs from the plain one", map[string]any{"program": w.ops, "request": q.String(), "facade": oa, "plain": ob})
			return
		}
	}
	for i, pp := range w.parsed {
		path, _ := Witness(pp, i)
		for _, m := range []string{"GET", "POST", "HEAD", "OPTIONS", "BOGUS"} {
			q := mon.Req{Method: m, Path: path}
			oa, ob := w.observe(w.a, q), w.observe(w.b, q)
			c.Eval()
			if oa != ob {
				c.Violate("dispatch through the facade-built router differs from the plain one", map[string]any{"program": w.ops, "request": q.String(), "facade": oa, "plain": ob})
				return
			}
		}
	}
}

func runC19(c *Ctx) {
	r := c.R
	ics := stdIC
	w := &c19World{c: c, envA: mon.NewEnv(), envB: mon.NewEnv(), live: map[string]map[string]bool{}, tag: map[*mon.Hnd]int{}}
	w.envA.RecordMW, w.envB.RecordMW = false, false
	domain := ref.Pick(r, []string{"", "https://x.io/"})
	withTrace := r.Chance(1, 3)
	opts := func(env *mon.Env) []mux.Option {
		o := icOptions(ics)
		if domain != "" {
			o = append(o, mux.WithURLDomain(domain))
		}
		if withTrace {
			th := env.NewHnd(mon.KTrace, "")
			w.tag[th] = -1
			o = append(o, mux.WithTrace(th))
		}
		return o
	}
	w.a, w.b = w.envA.NewRouter("r", opts(w.envA)...), w.envB.NewRouter("r", opts(w.envB)...)
	if withTrace {
		c.Class("facade_program_on_trace_router")
	}
	w.pool = gen.SimpleFor(ics).Table(r, r.Range(6, 16))
	w.parsed = parseAll(w.pool, ics.Funcs)

	newObj := func() {
		p := ref.Pick(r, w.pool)
		names := w.newNames("m", r.Intn(3))
		switch x := r.Intn(10); {
		case x < 4 || len(w.objs) == 0:
			cut := gen.Cut(r, p)
			if r.Chance(1, 6) {
				cut = 0 // the empty prefix
			}
			o := &facadeObj{kind: "prefix", from: p, pattern: p[:cut], mws: names}
			o.pA = w.a.Prefix(o.pattern, w.mws(w.envA, names)...)
			w.objs = append(w.objs, o)
			w.ops = append(w.ops, fmt.Sprintf("o%d := r.Prefix(%q, %v)", len(w.objs)-1, o.pattern, names))
		case x < 7:
			// nested under an existing prefix object
			var parents []int
			for i, o := range w.objs {
				if o.kind == "prefix" {
					parents = append(parents, i)
				}
			}
			if len(parents) == 0 {
				return
			}
			pi := ref.Pick(r, parents)
			par := w.objs[pi]
			if !strings.HasPrefix(p, par.pattern) {
				p = par.from // stay below the parent so that the concatenated pattern is well-formed
			}
			rest := p[len(par.pattern):]
			cut := gen.Cut(r, rest)
			if r.Bool() {
				o := &facadeObj{kind: "prefix", from: p, pattern: par.pattern + rest[:cut], mws: append(append([]string{}, names...), par.mws...)}
				o.pA = par.pA.Prefix(rest[:cut], w.mws(w.envA, names)...)
				w.objs = append(w.objs, o)
				w.ops = append(w.ops, fmt.Sprintf("o%d := o%d.Prefix(%q, %v)", len(w.objs)-1, pi, rest[:cut], names))
			} else {
				o := &facadeObj{kind: "resource", pattern: par.pattern + rest, mws: append(append([]string{}, names...), par.mws...)}
				o.rA = par.pA.Resource(rest, w.mws(w.envA, names)...)
				w.objs = append(w.objs, o)
				w.ops = append(w.ops, fmt.Sprintf("o%d := o%d.Resource(%q, %v)", len(w.objs)-1, pi, rest, names))
			}
			w.depth = 2
		default:
			o := &facadeObj{kind: "resource", pattern: p, mws: names}
			o.rA = w.a.Resource(p, w.mws(w.envA, names)...)
			w.objs = append(w.objs, o)
			w.ops = append(w.ops, fmt.Sprintf("o%d := r.Resource(%q, %v)", len(w.objs)-1, p, names))
		}
	}

	if r.Chance(1, 4) {
		w.cleanFocus()
	}
	newObj()
	nops := r.Range(10, 30)
	for i := 0; i < nops && !c.Violated(); i++ {
		if r.Chance(1, 4) {
			newObj()
			continue
		}
		if r.Chance(1, 8) {
			// Router.Use on both sides: facade objects created earlier must pick the new middleware up like plain calls do
			names := w.newNames("u", 1)
			w.a.Use(w.mws(w.envA, names)...)
			w.b.Use(w.mws(w.envB, names)...)
			w.ops = append(w.ops, fmt.Sprintf("r.Use(%v) on both routers", names))
			c.Class("router_use_between_facade_calls")
			w.compareAll()
			continue
		}
		oi := r.Intn(len(w.objs))
		o := w.objs[oi]
		// the rest of a pool pattern below this object's pattern (or anything else)
		rest := ""
		full := o.pattern
		if o.kind == "prefix" {
			p := ref.Pick(r, w.pool)
			if !strings.HasPrefix(p, o.pattern) {
				p = o.from // the pattern the prefix was cut from: the concatenation is well-formed
			}
			rest = p[len(o.pattern):]
			if r.Chance(1, 5) {
				rest += ref.Pick(r, []string{"/z", "x", "/zz/{q}"})
			}
			full = o.pattern + rest
		}
		switch x := r.Intn(20); {
		case x < 10: // registration
			reg := w.newNames("h", r.Intn(3))
			var ms []string
			short := ""
			switch r.Intn(4) {
			case 0:
				short, ms = "Get", []string{"GET"}
			case 1:
				short, ms = ref.Pick(r, []string{"Post", "Put", "Delete", "Patch"}), nil
				ms = []string{strings.ToUpper(short)}
			case 2:
				short, ms = "Any", nil
			default:
				ms = randomMethods(r, &Sys{})
			}
			w.seq++
			tag := w.seq
			hA, hB := w.envA.NewHnd(mon.KRoute, full), w.envB.NewHnd(mon.KRoute, full)
			w.tag[hA], w.tag[hB] = tag, tag
			mA := w.mws(w.envA, reg)
			pa := guarded(func() {
				switch {
				case o.kind == "prefix" && short == "Get":
					o.pA.Get(rest, hA, mA...)
				case o.kind == "prefix" && short == "Any":
					o.pA.Any(rest, hA, mA...)
				case o.kind == "prefix" && short == "Post":
					o.pA.Post(rest, hA, mA...)
				case o.kind == "prefix" && short == "Put":
					o.pA.Put(rest, hA, mA...)
				case o.kind == "prefix" && short == "Delete":
					o.pA.Delete(rest, hA, mA...)
				case o.kind == "prefix" && short == "Patch":
					o.pA.Patch(rest, hA, mA...)
				case o.kind == "prefix":
					o.pA.Handle(rest, hA, mA, ms...)
				case short == "Get":
					o.rA.Get(hA, mA...)
				case short == "Any":
					o.rA.Any(hA, mA...)
				case short == "Post":
					o.rA.Post(hA, mA...)
				case short == "Put":
					o.rA.Put(hA, mA...)
				case short == "Delete":
					o.rA.Delete(hA, mA...)
				case short == "Patch":
					o.rA.Patch(hA, mA...)
				default:
					o.rA.Handle(hA, mA, ms...)
				}
			})
			// translation: concatenated pattern, concatenated middleware lists
			plain := append(append([]string{}, reg...), o.mws...)
			pb := guarded(func() { w.b.Handle(full, hB, w.mws(w.envB, plain), ms...) })
			w.ops = append(w.ops, fmt.Sprintf("o%d.%s(%q, %v, reg=%v)  ==  r.Handle(%q, %v, mws=%v)", oi, ifEmpty(short, "Handle"), rest, ms, reg, full, ms, plain))
			if (pa == nil) != (pb == nil) {
				c.Violate("registration through the facade and through Router.Handle disagree on acceptance", map[string]any{"program": w.ops, "facade_panic": fmt.Sprint(pa), "plain_panic": fmt.Sprint(pb)})
				return
			}
			if pb == nil {
				if w.live[full] == nil {
					w.live[full] = map[string]bool{}
				}
				if len(ms) == 0 {
					ms = gen.AnyMethods
				}
				for _, m := range ms {
					w.live[full][m] = true
				}
				c.Class("facade_registration_accepted")
			} else {
				c.Class("facade_registration_rejected")
			}
		case x < 14: // Remove
			var ms []string
			if r.Bool() {
				ms = []string{ref.Pick(r, gen.Methods)}
			}
			if o.kind == "prefix" {
				o.pA.Remove(rest, ms...)
			} else {
				o.rA.Remove(ms...)
			}
			w.b.Remove(full, ms...)
			w.modelRemove(full, ms)
			w.ops = append(w.ops, fmt.Sprintf("o%d.Remove(%q, %v)  ==  r.Remove(%q, %v)", oi, rest, ms, full, ms))
			c.Class("facade_remove")
		case x < 17: // Clean
			if o.kind == "prefix" {
				o.pA.Clean()
				var del []string
				for p := range w.live {
					if strings.HasPrefix(p, o.pattern) {
						del = append(del, p)
					}
				}
				sort.Strings(del)
				for _, p := range del {
					w.b.Remove(p)
					delete(w.live, p)
				}
				w.ops = append(w.ops, fmt.Sprintf("o%d.Clean()  ==  r.Remove(p) for %v", oi, del))
				c.Class("prefix_clean")
			} else {
				o.rA.Clean()
				w.b.Remove(o.pattern)
				delete(w.live, o.pattern)
				w.ops = append(w.ops, fmt.Sprintf("o%d.Clean()  ==  r.Remove(%q)", oi, o.pattern))
				c.Class("resource_clean")
			}
		default: // URL
			strict := r.Bool()
			params := map[string]string{}
			if pp, cls := ref.Parse(full, ics.Funcs); cls == ref.SynOK {
				for i := range pp.Toks {
					if t := &pp.Toks[i]; t.Kind != ref.KLit {
						params[t.Name] = ref.Pick(r, []string{"7", "42", "x7", ""})
					}
				}
			}
			var ua string
			var ea error
			if o.kind == "prefix" {
				ua, ea = o.pA.URL(strict, rest, params)
			} else {
				ua, ea = o.rA.URL(strict, params)
			}
			ub, eb := w.b.URL(strict, full, params)
			c.Eval()
			if ua != ub || (ea != nil) != (eb != nil) {
				c.Violate("URL through the facade differs from Router.URL on the concatenated pattern", map[string]any{"program": w.ops, "facade": fmt.Sprintf("%q %v", ua, ea), "plain": fmt.Sprintf("%q %v", ub, eb), "pattern": full, "params": fmtParams(params), "strict": strict})
				return
			}
			c.Class("facade_url")
		}
		w.compareAll()
	}
	if w.depth >= 2 {
		c.Class("program_with_nested_facade")
	}
	c.Nontrivial(strings.Join(w.ops, "\n"))
	if c.WantSample("program") {
		n := len(w.ops)
		if n > 14 {
			n = 14
		}
		c.Sample("program", w.ops[:n])
	}
}

// cleanFocus is a preamble aimed at Prefix.Clean on a prefix that ends shortly after a parameter: a route ending in the
// parameter is registered first, then one or two routes that continue it, then the prefix between them is cleaned.
func (w *c19World) cleanFocus() {
	r, c := w.c.R, w.c
	type split struct{ head, ext string }
	var cands []split
	for _, q := range w.pool {
		for i := 0; i+1 < len(q); i++ {
			if q[i] == '}' {
				cands = append(cands, split{q[:i+1], q[i+1:]})
			}
		}
	}
	if len(cands) == 0 {
		return
	}
	s := ref.Pick(r, cands)
	top := &facadeObj{kind: "prefix", from: s.head + s.ext, pattern: "", mws: nil}
	top.pA = w.a.Prefix("")
	w.objs = append(w.objs, top)
	w.ops = append(w.ops, fmt.Sprintf("o%d := r.Prefix(\"\")", len(w.objs)-1))
	reg := func(full string) {
		w.seq++
		tag := w.seq
		hA, hB := w.envA.NewHnd(mon.KRoute, full), w.envB.NewHnd(mon.KRoute, full)
		w.tag[hA], w.tag[hB] = tag, tag
		pa := guarded(func() { top.pA.Get(full, hA) })
		pb := guarded(func() { w.b.Handle(full, hB, nil, "GET") })
		w.ops = append(w.ops, fmt.Sprintf("o%d.Get(%q)  ==  r.Handle(%q, GET)", len(w.objs)-1, full, full))
		if (pa == nil) != (pb == nil) {
			c.Violate("registration through the facade and through Router.Handle disagree on acceptance", map[string]any{"program": w.ops, "facade_panic": fmt.Sprint(pa), "plain_panic": fmt.Sprint(pb)})
			return
		}
		if pb == nil {
			if w.live[full] == nil {
				w.live[full] = map[string]bool{}
			}
			w.live[full]["GET"] = true
		}
	}
	order := []string{s.head, s.head + s.ext}
	if r.Chance(1, 3) {
		order = append(order, s.head+s.ext+ref.Pick(r, []string{"/z", "x"}))
	}
	if r.Chance(1, 3) {
		order[0], order[1] = order[1], order[0]
	}
	for _, p := range order {
		reg(p)
		if c.Violated() {
			return
		}
	}
	w.compareAll()
	k := 1 + r.Intn(min(3, len(s.ext)))
	o := &facadeObj{kind: "prefix", from: s.head + s.ext, pattern: s.head + s.ext[:k]}
	if r.Bool() {
		o.pA = w.a.Prefix(o.pattern)
		w.ops = append(w.ops, fmt.Sprintf("o%d := r.Prefix(%q)", len(w.objs), o.pattern))
	} else {
		cut := gen.Cut(r, s.head)
		o.pA = w.a.Prefix(s.head[:cut]).Prefix(s.head[cut:] + s.ext[:k])
		w.ops = append(w.ops, fmt.Sprintf("o%d := r.Prefix(%q).Prefix(%q)", len(w.objs), s.head[:cut], s.head[cut:]+s.ext[:k]))
	}
	w.objs = append(w.objs, o)
	o.pA.Clean()
	var del []string
	for p := range w.live {
		if strings.HasPrefix(p, o.pattern) {
			del = append(del, p)
		}
	}
	sort.Strings(del)
	for _, p := range del {
		w.b.Remove(p)
		delete(w.live, p)
	}
	w.ops = append(w.ops, fmt.Sprintf("o%d.Clean()  ==  r.Remove(p) for %v", len(w.objs)-1, del))
	c.Class("prefix_clean")
	c.Class("prefix_clean_just_after_parameter")
	w.compareAll()
}

func ifEmpty(s, d string) string {
	if s == "" {
		return d
	}
	return s
}

func init() {
	Register(&Engine{
		ID:      "C19",
		Anchors: []string{"router.go:Prefix", "router.go:Resource", "router.go:Clean", "node.go:clean", "router.go:Remove", "router.go:URL"},
		Cases:   func(t string) int { return map[string]int{"quick": 8000, "thorough": 320000}[t] },
		Run:     runC19,
		Rule: "case = random facade program (10-30 steps: Prefix / nested Prefix / Resource creation with middlewares, prefixes cut anywhere incl. empty and inside a parameter token; Get/Post/Put/Delete/Patch/Any/Handle; Remove; Clean; URL; one program in four starts with a Clean-focused preamble: a route ending in a parameter, one or two routes continuing it in either order, then Prefix.Clean on the prefix 1-3 bytes past the parameter) executed on router A and its translation into Router.Handle/Remove/URL calls with concatenated patterns and middleware lists on router B; after every step Routes(), a probe battery per pool pattern x 5 methods (status, paired handler, params, executed middleware chain, Allow), URL results and panics must agree; " +
			"non-trivial (distinct by program text) = every program",
		Floors: func(t string) map[string]int64 {
			if t == "quick" {
				return map[string]int64{"facade_registration_accepted": 4000, "prefix_clean": 800, "prefix_clean_just_after_parameter": 400, "resource_clean": 300, "facade_url": 1200, "program_with_nested_facade": 500, "facade_remove": 1500}
			}
			return map[string]int64{"facade_registration_accepted": 150000, "prefix_clean": 20000}
		},
		Assume: []string{"the translation (concatenate patterns; registration middlewares ++ facade middlewares, inner facade before outer) is the property's definition of 'shorthand'"},
	})
}
