package eng

import (
	"fmt"
	"net/http"
	"os"
	"path/filepath"
	"regexp"
	"runtime"
	"sort"
	"strings"
	"sync"
	"sync/atomic"
	"time"

	"github.com/anishathalye/porcupine"
	"github.com/issue9/mux/v9"
	"github.com/issue9/mux/v9/types"

	"verifharness/mon"
	"verifharness/ref"
)

// C06: WithLock(true) - concurrent registration, removal and serving.
//
// One case = one short history on a fresh WithLock router: writers toggle
// routes (splitting and re-merging the nodes of untouched routes, creating and
// destroying the first-byte index) while readers serve, list and build URLs.
// Oracles: the race detector (GORACE log, parsed by the parent), reader-side
// assertions for untouched routes, porcupine over the recorded history.

type cPattern struct {
	pat     string
	witness func(v string) string // path for a parameter value
	param   string                // capturing parameter name ("" = none)
	touched bool
	group   string // patterns that constrain each other share one porcupine partition
	// a witness path of a toggled literal may fall back to this untouched pattern when the literal is dead
}

var c06Untouched = []cPattern{
	{pat: "/k/author", witness: func(string) string { return "/k/author" }},
	{pat: "/k/{id}/author", witness: func(v string) string { return "/k/" + v + "/author" }, param: "id"},
	{pat: "/f/{x}", witness: func(v string) string { return "/f/" + v }, param: "x"},
	{pat: "/f/a", witness: func(string) string { return "/f/a" }},
	{pat: "{w}", witness: func(v string) string { return v }, param: "w"},
	{pat: "/y/{n:yield}/z", witness: func(v string) string { return "/y/" + v + "/z" }, param: "n"},
}

var c06Toggled = []cPattern{
	{pat: "/k/abc", witness: func(string) string { return "/k/abc" }},
	{pat: "/k/a", witness: func(string) string { return "/k/a" }},
	{pat: "/k/{id}/abc", witness: func(v string) string { return "/k/" + v + "/abc" }, param: "id"},
	{pat: "/k/{id}/a", witness: func(v string) string { return "/k/" + v + "/a" }, param: "id"},
	{pat: "/k/{id}/author/x", witness: func(v string) string { return "/k/" + v + "/author/x" }, param: "id"},
	{pat: "/f/b", witness: func(string) string { return "/f/b" }},
	{pat: "/f/c", witness: func(string) string { return "/f/c" }},
	{pat: "/f/d", witness: func(string) string { return "/f/d" }},
	{pat: "/f/e", witness: func(string) string { return "/f/e" }},
	{pat: "/f/g/h", witness: func(string) string { return "/f/g/h" }},
	{pat: "/y/{n:yield}/q", witness: func(v string) string { return "/y/" + v + "/q" }, param: "n"},
	{pat: "/p/x", witness: func(string) string { return "/p/x" }},
	{pat: "/p/y", witness: func(string) string { return "/p/y" }},
	{pat: "/p/{id}", witness: func(v string) string { return "/p/" + v }, param: "id"},
	// both sides of these splits are toggled: nodes are split, pruned and split again during one history
	{pat: "/s/{id}/author", witness: func(v string) string { return "/s/" + v + "/author" }, param: "id"},
	{pat: "/s/{id}/abc", witness: func(v string) string { return "/s/" + v + "/abc" }, param: "id"},
	{pat: "/s/{id}/abd", witness: func(v string) string { return "/s/" + v + "/abd" }, param: "id"},
	{pat: "/t/alpha", witness: func(string) string { return "/t/alpha" }},
	{pat: "/t/alps", witness: func(string) string { return "/t/alps" }},
	{pat: "/t/al", witness: func(string) string { return "/t/al" }},
	// a twin group: the two patterns differ in the parameter name only, at most one of them may ever be live
	{pat: "/w/{id}/z", witness: func(v string) string { return "/w/" + v + "/z" }, param: "id", group: "twins:/w/{}/z"},
	{pat: "/w/{name}/z", witness: func(v string) string { return "/w/" + v + "/z" }, param: "name", group: "twins:/w/{}/z"},
}

// patterns of the ordered writer (different subtrees; not part of the porcupine model)
const (
	c06OrdA = "/oa/{id}/x"
	c06OrdB = "/zb/y"
	c06OrdC = "/mc/{n}"
)

func c06IsToggled(pat string) bool {
	for _, t := range c06Toggled {
		if t.pat == pat {
			return true
		}
	}
	return false
}

func c06Group(pat string) string {
	for _, t := range c06Toggled {
		if t.pat == pat && t.group != "" {
			return t.group
		}
	}
	return pat
}

// history event (one client call), recorded at the API boundary.
type cInput struct {
	Op     string // handle, remove, removeall, clean, serve, routes, url
	Pat    string
	Method string // serve/remove: the method; handle: the methods joined by ","
	ID     int64  // handler id given to Handle
	Path   string
	Value  string
}

type cOutput struct {
	OK      bool   // handle: accepted; url: no error
	Pattern string // serve: answering pattern ("" = 404)
	Kind    string // serve: handler kind
	HID     int64  // serve: base handler id
	Status  int
	Methods string // routes: sorted method list, "-" = absent
	Panic   string
	Params  string
}

type cEvent struct {
	Client int
	In     cInput
	Out    cOutput
	Call   int64
	Return int64
	Open   bool // never returned (goroutine panicked)
}

type c06Run struct {
	c          *Ctx
	env        *mon.Env
	r          *mux.Router[*mon.Hnd]
	h          http.Handler // what readers serve through: the router itself or a Group it was added to
	domain     string       // what URL() results start with (WithURLDomain on a third of the histories)
	clock      atomic.Int64
	mu         sync.Mutex
	events     []cEvent
	viol       []string
	untouchedH map[string]*mon.Hnd
	untouched  atomic.Int64
	ordSeen    atomic.Int64
}

func (x *c06Run) record(e cEvent) {
	x.mu.Lock()
	x.events = append(x.events, e)
	x.mu.Unlock()
}

func (x *c06Run) violate(msg string) {
	x.mu.Lock()
	if len(x.viol) < 20 {
		x.viol = append(x.viol, msg)
	}
	x.mu.Unlock()
}

// do wraps one client call: stamps before invoking and after returning.
func (x *c06Run) do(client int, in cInput, f func() cOutput) cEvent {
	ev := cEvent{Client: client, In: in, Call: x.clock.Add(1), Open: true}
	func() {
		defer func() {
			if p := recover(); p != nil {
				ev.Out.Panic = fmt.Sprint(p)
				x.violate(fmt.Sprintf("%s %s %s panicked: %v", in.Op, in.Pat, in.Method, p))
			}
		}()
		ev.Out = f()
		ev.Open = false
	}()
	ev.Return = x.clock.Add(1)
	x.record(ev)
	return ev
}

var yieldCount atomic.Int64

func yieldDigits(s string) bool {
	if yieldCount.Add(1)%3 == 0 {
		runtime.Gosched() // a yield under the tree's read lock
	}
	return ref.IsDigits(s)
}

func (x *c06Run) serve(client int, p cPattern, method, value string) {
	path := p.witness(value)
	allowOf, allow := "", ""
	ev := x.do(client, cInput{Op: "serve", Pat: p.pat, Method: method, Path: path, Value: value}, func() cOutput {
		o := mon.Do(x.h, mon.Req{Method: method, Path: path})
		if o.H != nil && (o.H.Base.Kind == mon.KOptions || o.H.Base.Kind == mon.K405) && o.Header != nil {
			allowOf, allow = o.H.Base.Pattern, strings.Join(mon.AllowSet(o.Header.Get("Allow")), ",")
		}
		out := cOutput{Status: o.Status, Params: fmtParams(o.Params)}
		if o.Panicked {
			panic(o.Panic)
		}
		if o.NilHandler {
			out.Kind = "nil"
			x.violate(fmt.Sprintf("nil handler for %s %s", method, path))
			return out
		}
		out.Kind, out.HID = o.H.Base.Kind, o.H.Base.ID
		if !o.NodeNil {
			out.Pattern = o.NodePattern
		}
		if (out.Kind == mon.KOptions || out.Kind == mon.K405) && o.H.Base.Pattern != out.Pattern {
			x.violate(fmt.Sprintf("%s %s answered by the %s handler of %q while the route reported is %q", method, path, out.Kind, o.H.Base.Pattern, out.Pattern))
		}
		return out
	})
	if allowOf != "" && !ev.Open && c06IsToggled(allowOf) {
		// the builder reads the node's Allow value at handler time, outside the tree lock: a second observation with the
		// same window as the request (its own virtual client), linearized independently of the handler selection
		x.record(cEvent{Client: client + 1000000, In: cInput{Op: "allow", Pat: allowOf, Method: method}, Out: cOutput{Methods: allow}, Call: ev.Call, Return: ev.Return})
	}
}

// The sequential model. One partition holds the patterns of one group (usually
// a single pattern); its state is the canonical string "pattern|METHOD=id;...".
func stEncode(m map[string]int64) string {
	ks := make([]string, 0, len(m))
	for k := range m {
		ks = append(ks, k)
	}
	sort.Strings(ks)
	var b strings.Builder
	for i, k := range ks {
		if i > 0 {
			b.WriteByte(';')
		}
		fmt.Fprintf(&b, "%s=%d", k, m[k])
	}
	return b.String()
}

func stDecode(s string) map[string]int64 {
	m := map[string]int64{}
	if s == "" {
		return m
	}
	for _, kv := range strings.Split(s, ";") {
		i := strings.LastIndexByte(kv, '=')
		var id int64
		fmt.Sscan(kv[i+1:], &id)
		m[kv[:i]] = id
	}
	return m
}

// stOf extracts the method->id map of one pattern; stLive lists the patterns with any method.
func stOf(st map[string]int64, pat string) map[string]int64 {
	out := map[string]int64{}
	for k, v := range st {
		if strings.HasPrefix(k, pat+"|") {
			out[k[len(pat)+1:]] = v
		}
	}
	return out
}

func stLive(st map[string]int64) []string {
	seen := map[string]bool{}
	var out []string
	for k := range st {
		p := k[:strings.LastIndexByte(k, '|')]
		if !seen[p] {
			seen[p] = true
			out = append(out, p)
		}
	}
	sort.Strings(out)
	return out
}

func stMethods(m map[string]int64) string {
	if len(m) == 0 {
		return "-"
	}
	set := []string{"OPTIONS"}
	for k := range m {
		set = append(set, k)
	}
	if _, ok := m["GET"]; ok {
		set = append(set, "HEAD")
	}
	if c06Trace {
		set = append(set, "TRACE")
	}
	sort.Strings(set)
	return strings.Join(set, ",")
}

// c06Trace: the router of the current history was created with WithTrace (every Allow set and Routes() list names TRACE).
// Cases run one after the other in a process, and the porcupine check runs before the next case starts.
var c06Trace bool

func c06Full() string {
	if c06Trace {
		return "GET,HEAD,OPTIONS,POST,TRACE"
	}
	return "GET,HEAD,OPTIONS,POST"
}

var c06Model = porcupine.Model{
	Partition: func(history []porcupine.Operation) [][]porcupine.Operation {
		by := map[string][]porcupine.Operation{}
		var keys []string
		for _, op := range history {
			k := c06Group(op.Input.(cInput).Pat)
			if _, ok := by[k]; !ok {
				keys = append(keys, k)
			}
			by[k] = append(by[k], op)
		}
		sort.Strings(keys)
		out := make([][]porcupine.Operation, 0, len(keys))
		for _, k := range keys {
			out = append(out, by[k])
		}
		return out
	},
	Init: func() any { return "" },
	Step: func(state, input, output any) (bool, any) {
		all := stDecode(state.(string))
		in := input.(cInput)
		out := output.(cOutput)
		st := stOf(all, in.Pat)
		switch in.Op {
		case "handle":
			// atomic: the whole list is installed or nothing is
			ms := strings.Split(in.Method, ",")
			reject := false
			seen := map[string]bool{}
			for _, m := range ms {
				if _, dup := st[m]; dup || seen[m] {
					reject = true
				}
				seen[m] = true
			}
			for _, p := range stLive(all) { // a live twin (same group, other pattern) makes the call ambiguous
				if p != in.Pat {
					reject = true
				}
			}
			if reject {
				return !out.OK, state
			}
			if !out.OK {
				return false, state
			}
			for _, m := range ms {
				all[in.Pat+"|"+m] = in.ID
			}
			return true, stEncode(all)
		case "remove":
			delete(all, in.Pat+"|"+in.Method)
			return true, stEncode(all)
		case "removeall", "clean":
			for m := range st {
				delete(all, in.Pat+"|"+m)
			}
			return true, stEncode(all)
		case "serve":
			// the witness path of a group member is matched by every member of the group
			live := stLive(all)
			if len(live) == 0 {
				for _, t := range c06Toggled {
					if c06Group(t.pat) == c06Group(in.Pat) && out.Pattern == t.pat {
						return false, state
					}
				}
				return true, state
			}
			if len(live) > 1 || out.Pattern != live[0] {
				return false, state
			}
			st = stOf(all, live[0])
			if id, ok := st[in.Method]; ok {
				return out.Kind == mon.KRoute && out.HID == id, state
			}
			if id, ok := st["GET"]; ok && in.Method == "HEAD" {
				return out.Kind == mon.KRoute && out.HID == id, state
			}
			if in.Method == "OPTIONS" {
				return out.Kind == mon.KOptions, state
			}
			return out.Kind == mon.K405, state
		case "routes":
			return out.Methods == stMethods(st), state
		case "allow":
			// the Allow header written by the OPTIONS/405 builder: the pattern's method set at this instant. A pattern without
			// methods has no OPTIONS/405 handler, so no sequential response carries an empty Allow.
			if len(st) == 0 {
				return false, state
			}
			return out.Methods == stMethods(st), state
		case "url":
			return out.OK == (len(st) > 0), state
		}
		return false, state
	},
	Equal: func(a, b any) bool { return a.(string) == b.(string) },
	DescribeOperation: func(input, output any) string {
		return fmt.Sprintf("%+v -> %+v", input, output)
	},
}

// splitStorm: many tiny fresh WithLock routers; on each, one goroutine registers a sibling that splits
// the node of an existing route (a one-time event per node) while others serve that route and build its
// strict URL. Node splits are the rarest restructuring of the tree, so they get a workload of their own.
func splitStorm(c *Ctx, n int) {
	r := c.R
	shapes := []struct{ keep, keepPath, add string }{
		{"/r/{id}/author", "/r/7/author", "/r/{id}/abc"},
		{"/lit/alpha/beta", "/lit/alpha/beta", "/lit/alps"},
		{"{id}/author", "7/author", "{id}/abd/x"},
		{`/n/{d:\d+}/author/x`, "/n/7/author/x", `/n/{d:\d+}/a`},
	}
	var bad, stormOps atomic.Int64
	var firstMsg atomic.Value
	for i := 0; i < n; i++ {
		sh := shapes[r.Intn(len(shapes))]
		env := mon.NewEnv()
		env.RecordMW = false
		rt := env.NewRouter("r", mux.WithLock(true))
		keepH := env.NewHnd(mon.KRoute, sh.keep)
		rt.Handle(sh.keep, keepH, nil, "GET")
		var wg sync.WaitGroup
		start := make(chan struct{})
		for g := 0; g < 3; g++ {
			wg.Add(1)
			go func(g int) {
				defer wg.Done()
				<-start
				for k := 0; k < 6; k++ {
					stormOps.Add(1)
					if g == 0 {
						u, err := func() (s string, err error) {
							defer func() {
								if p := recover(); p != nil {
									err = fmt.Errorf("panic: %v", p)
								}
							}()
							return rt.URL(true, sh.keep, map[string]string{"id": "7", "d": "7"})
						}()
						if err != nil || u != sh.keepPath {
							bad.Add(1)
							firstMsg.CompareAndSwap(nil, fmt.Sprintf("strict URL(%q) = %q, %v while a sibling was registered (expected %q)", sh.keep, u, err, sh.keepPath))
						}
					} else {
						o := mon.Do(rt, mon.Req{Method: "GET", Path: sh.keepPath})
						if o.Panicked || o.H == nil || o.H.Base != keepH {
							bad.Add(1)
							firstMsg.CompareAndSwap(nil, fmt.Sprintf("GET %s not served by its own handler while a sibling was registered: %v", sh.keepPath, obsBrief(o)))
						}
					}
				}
			}(g)
		}
		wg.Add(1)
		go func() {
			defer wg.Done()
			<-start
			runtime.Gosched()
			tryHandle(rt, sh.add, env.NewHnd(mon.KRoute, sh.add), []string{"GET"})
			stormOps.Add(1)
		}()
		close(start)
		done := make(chan struct{})
		go func() { wg.Wait(); close(done) }()
		if !c06Await(c, done, func() int64 { return stormOps.Load() }, "requests and strict URL beside a registration that splits their node") {
			return
		}
	}
	c.EvalN(n)
	c.ClassN("split_storm_routers", n)
	if bad.Load() > 0 {
		c.Violate(fmt.Sprint(firstMsg.Load()), map[string]any{"failures": bad.Load()})
	}
}

func runC06(c *Ctx) {
	r := c.R
	splitStorm(c, 12)
	if c.Violated() {
		return
	}
	procs := []int{2, 4, 16}[r.Intn(3)]
	prev := runtime.GOMAXPROCS(procs)
	defer runtime.GOMAXPROCS(prev)
	c.Class(fmt.Sprintf("gomaxprocs_%d", procs))

	env := mon.NewEnv()
	env.RecordMW = false
	var yc atomic.Int64
	yield := func() {
		switch yc.Add(1) % 7 {
		case 0:
			runtime.Gosched()
		case 3:
			time.Sleep(20 * time.Microsecond)
		}
	}
	env.OnBuilder, env.OnMiddleware, env.OnCall = yield, yield, yield
	x := &c06Run{c: c, env: env, untouchedH: map[string]*mon.Hnd{}}
	c06Trace = r.Chance(1, 3)
	c06opts := []mux.Option{mux.WithLock(true), mux.WithInterceptor(yieldDigits, "yield")}
	if c06Trace {
		c06opts = append(c06opts, mux.WithTrace(env.NewHnd(mon.KTrace, "")))
		c.Class("history_on_trace_router")
	}
	c06Domain := ""
	if r.Chance(1, 3) {
		// a URL domain the option trims one slash off: URL() results carry the rest, whoever asks first and however many ask at once
		c06opts = append(c06opts, mux.WithURLDomain("https://u.example///"))
		c06Domain = "https://u.example//"
		c.Class("history_on_router_with_url_domain")
	}
	x.domain = c06Domain
	x.r = env.NewRouter("r", c06opts...)
	x.h = x.r
	if r.Chance(1, 3) {
		// the other way to serve a router: through a Group it was added to (a matcher that accepts everything)
		g := env.NewGroup()
		g.Add(nil, x.r)
		x.h = g
		c.Class("served_through_a_group")
	}
	mw := env.MW("m")

	for _, u := range c06Untouched {
		h := env.NewHnd(mon.KRoute, u.pat)
		x.untouchedH[u.pat] = h
		x.r.Handle(u.pat, h, []muxMW{mw}, "GET", "POST")
	}
	// some toggled routes start live
	initial := map[string]map[string]int64{}
	for _, t := range c06Toggled {
		if r.Chance(1, 3) {
			h := env.NewHnd(mon.KRoute, t.pat)
			if ok, _ := tryHandle(x.r, t.pat, h, []string{"GET"}); ok { // the second member of a twin group is refused
				initial[t.pat] = map[string]int64{"GET": h.ID}
			}
		}
	}

	// calibration: the model treats /w/{id}/z and /w/{name}/z as mutually exclusive only if this router,
	// used sequentially with the same neighbours, refuses the second one (the property fixes that only
	// for a router with a single other route)
	twinsExclusive := false
	{
		probe := mon.NewEnv().NewRouter("probe", mux.WithLock(true), mux.WithInterceptor(yieldDigits, "yield"))
		for _, u := range c06Untouched {
			probe.Handle(u.pat, mon.NewEnv().NewHnd(mon.KRoute, u.pat), nil, "GET")
		}
		ok1, _ := tryHandle(probe, "/w/{id}/z", mon.NewEnv().NewHnd(mon.KRoute, ""), []string{"GET"})
		ok2, _ := tryHandle(probe, "/w/{name}/z", mon.NewEnv().NewHnd(mon.KRoute, ""), []string{"GET"})
		twinsExclusive = ok1 && !ok2
	}
	toggled := c06Toggled
	if !twinsExclusive {
		toggled = nil
		for _, t := range c06Toggled {
			if t.group == "" {
				toggled = append(toggled, t)
			}
		}
		c.Class("twin_group_not_modelled")
	}
	writers, readers := r.Range(2, 4), r.Range(4, 8)
	sharedMW := make([]muxMW, 1, 8)
	sharedMW[0] = mw
	sharedPx := x.r.Prefix("", env.MW("shared-prefix"))
	opsPerWriter, opsPerReader := r.Range(30, 70), r.Range(40, 90)
	var wg sync.WaitGroup
	methods := []string{"GET", "POST", "PUT", "DELETE"}
	for w := 0; w < writers; w++ {
		wg.Add(1)
		seed := r.U64()
		go func(w int) {
			defer wg.Done()
			lr := ref.NewR(seed)
			px := x.r.Prefix("", env.MW(fmt.Sprintf("pw%d", w))) // this writer's facade: the empty prefix with a middleware of its own
			if w%2 == 1 {
				px = sharedPx // ... or one facade object used by several writers at once
			}
			for i := 0; i < opsPerWriter; i++ {
				var t cPattern
				if lr.Chance(1, 2) { // owned by this writer
					t = toggled[(lr.Intn(len(toggled)/writers+1)*writers+w)%len(toggled)]
				} else { // contended
					t = ref.Pick(lr, toggled)
				}
				switch k := lr.Intn(20); {
				case k < 10:
					perm := append([]string(nil), methods...)
					ref.Shuffle(lr, perm)
					ms := perm[:1]
					if lr.Chance(1, 3) { // a list of distinct methods: the call must be atomic (all installed or none)
						ms = perm[:lr.Range(2, 3)]
					}
					h := env.NewHnd(mon.KRoute, t.pat)
					viaPrefix := lr.Bool()
					x.do(w, cInput{Op: "handle", Pat: t.pat, Method: strings.Join(ms, ","), ID: h.ID}, func() (out cOutput) {
						// every writer passes the same middleware slice (one element, spare capacity): it is only ever read
						defer func() {
							if recover() != nil {
								out.OK = false
							}
						}()
						if viaPrefix {
							px.Handle(t.pat, h, sharedMW, ms...)
						} else {
							x.r.Handle(t.pat, h, sharedMW, ms...)
						}
						return cOutput{OK: true}
					})
				case k < 15:
					m := ref.Pick(lr, methods)
					x.do(w, cInput{Op: "remove", Pat: t.pat, Method: m}, func() cOutput {
						x.r.Remove(t.pat, m)
						return cOutput{}
					})
				case k < 19:
					x.do(w, cInput{Op: "removeall", Pat: t.pat}, func() cOutput {
						x.r.Remove(t.pat)
						return cOutput{}
					})
				default:
					// Prefix.Clean of the private prefix /p/: logged into every partition it affects
					call := x.clock.Add(1)
					var pan string
					func() {
						defer func() {
							if p := recover(); p != nil {
								pan = fmt.Sprint(p)
								x.violate("Prefix.Clean panicked: " + pan)
							}
						}()
						x.r.Prefix("/p/").Clean()
					}()
					ret := x.clock.Add(1)
					for _, q := range toggled {
						if strings.HasPrefix(q.pat, "/p/") {
							x.record(cEvent{Client: w, In: cInput{Op: "clean", Pat: q.pat}, Out: cOutput{Panic: pan}, Call: call, Return: ret, Open: pan != ""})
						}
					}
				}
			}
		}(w)
	}
	// the ordered writer: one goroutine, so its program order is real-time order. It keeps the invariant
	// "b live => c live and a has POST" by registering a's POST and c before b, and removing b before them.
	{
		ha := env.NewHnd(mon.KRoute, c06OrdA)
		x.r.Handle(c06OrdA, ha, nil, "GET")
		wg.Add(1)
		n := opsPerWriter
		go func() {
			defer wg.Done()
			defer func() {
				if p := recover(); p != nil {
					x.violate(fmt.Sprintf("ordered writer panicked: %v", p))
				}
			}()
			for i := 0; i < n; i++ {
				x.r.Handle(c06OrdA, env.NewHnd(mon.KRoute, c06OrdA), nil, "POST")
				x.r.Handle(c06OrdC, env.NewHnd(mon.KRoute, c06OrdC), nil, "GET")
				x.r.Handle(c06OrdB, env.NewHnd(mon.KRoute, c06OrdB), nil, "GET", "PUT")
				x.r.Remove(c06OrdB)
				if i%2 == 0 {
					x.r.Remove(c06OrdC)
					x.r.Remove(c06OrdA, "POST")
				} else {
					x.r.Remove(c06OrdA, "POST")
					x.r.Remove(c06OrdC, "GET")
				}
			}
		}()
	}
	var uniq atomic.Int64
	for rd := 0; rd < readers; rd++ {
		wg.Add(1)
		seed := r.U64()
		go func(rd int) {
			defer wg.Done()
			client := 100 + rd
			lr := ref.NewR(seed)
			for i := 0; i < opsPerReader; i++ {
				switch k := lr.Intn(20); {
				case k < 7: // untouched route: direct assertion
					u := ref.Pick(lr, c06Untouched)
					m := ref.Pick(lr, []string{"GET", "POST", "HEAD", "OPTIONS", "PUT", "BOGUS"})
					v := fmt.Sprintf("%d", 1000000+uniq.Add(1))
					path := u.witness(v)
					o := mon.Do(x.h, mon.Req{Method: m, Path: path})
					c06CheckUntouched(x, u, m, v, path, o)
				case k < 16:
					t := ref.Pick(lr, toggled)
					m := ref.Pick(lr, []string{"GET", "GET", "POST", "HEAD", "OPTIONS", "PUT", "DELETE", "BOGUS"})
					x.serve(client, t, m, fmt.Sprintf("%d", 1000000+uniq.Add(1)))
				case k < 18:
					call := x.clock.Add(1)
					var routes map[string][]string
					func() {
						defer func() {
							if p := recover(); p != nil {
								x.violate(fmt.Sprintf("Routes() panicked: %v", p))
							}
						}()
						routes = takeRoutes(x.r)
					}()
					ret := x.clock.Add(1)
					if routes != nil {
						for _, q := range toggled {
							ms := "-"
							if l, ok := routes[q.pat]; ok {
								ms = strings.Join(mon.SortedCopy(l), ",")
							}
							x.record(cEvent{Client: client, In: cInput{Op: "routes", Pat: q.pat}, Out: cOutput{Methods: ms}, Call: call, Return: ret})
						}
						for _, u := range c06Untouched {
							if got := strings.Join(mon.SortedCopy(routes[u.pat]), ","); got != c06Full() {
								x.violate(fmt.Sprintf("Routes()[%q]=%q for an untouched route", u.pat, got))
							}
						}
						// the listing is one snapshot: the ordered writer keeps "b listed => c listed and a has POST" true at every instant
						if _, bLive := routes[c06OrdB]; bLive {
							x.ordSeen.Add(1)
							_, cLive := routes[c06OrdC]
							if !cLive || !contains(routes[c06OrdA], "POST") {
								x.violate(fmt.Sprintf("Routes() is not a snapshot of one instant: it lists %q (registered only while %q is live and %q has POST) together with %q=%v and %q listed=%v", c06OrdB, c06OrdC, c06OrdA, c06OrdA, routes[c06OrdA], c06OrdC, cLive))
							}
						}
					}
				case k == 18:
					// strict URL of an untouched route: must always succeed with its own text, also while its node is being split
					u := ref.Pick(lr, c06Untouched)
					want := x.domain + u.witness("7")
					got, err := func() (s string, err error) {
						defer func() {
							if p := recover(); p != nil {
								err = fmt.Errorf("panic: %v", p)
							}
						}()
						return x.r.URL(true, u.pat, map[string]string{"id": "7", "x": "7", "w": "7", "n": "7"})
					}()
					x.untouched.Add(1)
					if err != nil || got != want {
						x.violate(fmt.Sprintf("strict URL of untouched route %q = %q, %v (expected %q)", u.pat, got, err, want))
					}
				default:
					t := ref.Pick(lr, toggled)
					strict := lr.Chance(2, 3)
					params := map[string]string{"id": "7", "n": "7", "name": "7"}
					if strict {
						x.do(client, cInput{Op: "url", Pat: t.pat}, func() cOutput {
							_, err := x.r.URL(true, t.pat, params)
							return cOutput{OK: err == nil}
						})
					} else if u, err := x.r.URL(false, t.pat, params); err != nil || u != x.domain+t.witness("7") {
						x.violate(fmt.Sprintf("non-strict URL(%q)=%q,%v", t.pat, u, err))
					}
				}
			}
		}(rd)
	}
	{
		done := make(chan struct{})
		go func() { wg.Wait(); close(done) }()
		if !c06Await(c, done, func() int64 { return x.clock.Load() + x.untouched.Load() }, "concurrent history") {
			return
		}
	}

	// quiescent again: for every toggled pattern the three views agree - Routes(), the Allow header of its OPTIONS answer
	// and Node().Methods() (a value cached or published at the wrong moment during the history would stay wrong now)
	{
		final := takeRoutes(x.r)
		for _, t := range toggled {
			o := mon.Do(x.h, mon.Req{Method: "OPTIONS", Path: t.witness("7")})
			want, live := final[t.pat]
			if !live {
				continue
			}
			if o.H == nil || o.H.Base.Kind != mon.KOptions || o.NodePattern != t.pat {
				continue // the witness path is answered by another live pattern (twin group or a literal neighbour)
			}
			ws := strings.Join(mon.SortedCopy(want), ",")
			if got := strings.Join(mon.AllowSet(o.Header.Get("Allow")), ","); got != ws {
				x.violate(fmt.Sprintf("after the history, with nothing running: Routes()[%q]=%s but its OPTIONS answer carries Allow=%s", t.pat, ws, got))
			}
			if got := strings.Join(mon.SortedCopy(o.NodeMethods), ","); got != ws {
				x.violate(fmt.Sprintf("after the history, with nothing running: Routes()[%q]=%s but Node().Methods()=%s", t.pat, ws, got))
			}
		}
		c.Class("quiescent_views_compared")
	}
	// every request context went back to the pool exactly once
	if a, b := types.NewContext(), types.NewContext(); a == b {
		x.violate("after the concurrent load the context pool hands out the same context twice (a context was returned to the pool twice)")
	} else {
		a.Destroy()
		b.Destroy()
	}
	for _, v := range x.viol {
		c.Violate(v, map[string]any{"gomaxprocs": procs, "writers": writers, "readers": readers})
	}
	c.EvalN(len(x.events))
	c.ClassN("untouched_route_served", int(x.untouched.Load()))
	c.ClassN("routes_snapshot_with_ordered_pair_live", int(x.ordSeen.Load()))

	// ---- porcupine over the recorded history ----
	var ops []porcupine.Operation
	// initial registrations as completed operations before everything else
	var t0 int64 = -1000
	for pat, ms := range initial {
		for m, id := range ms {
			ops = append(ops, porcupine.Operation{ClientId: 99, Input: cInput{Op: "handle", Pat: pat, Method: m, ID: id}, Output: cOutput{OK: true}, Call: t0, Return: t0 + 1})
			t0 += 2
		}
	}
	end := x.clock.Load() + 10
	overlapByKind := map[string]int{}
	var writes []cEvent
	for _, e := range x.events {
		if e.In.Op == "handle" || e.In.Op == "remove" || e.In.Op == "removeall" || e.In.Op == "clean" {
			writes = append(writes, e)
		}
	}
	for _, e := range x.events {
		ret := e.Return
		if e.Open {
			ret = end // stays open to the end of the history
		}
		ops = append(ops, porcupine.Operation{ClientId: e.Client, Input: e.In, Output: e.Out, Call: e.Call, Return: ret})
		if e.In.Op == "allow" {
			c.Class("allow_header_of_toggled_route_observed")
			if e.Out.Methods == "" {
				c.Class("allow_header_read_after_removal_empty")
			}
		}
		if e.In.Op == "serve" || e.In.Op == "routes" || e.In.Op == "url" {
			for _, w := range writes {
				if c06Group(w.In.Pat) == c06Group(e.In.Pat) && w.Call < e.Return && e.Call < w.Return {
					overlapByKind[w.In.Op]++
					c.Class("read_overlapping_" + w.In.Op)
					if e.In.Op == "serve" {
						c.Class("overlapping_serve_returned_" + serveClass(e.Out))
					}
					break
				}
			}
		}
	}
	// porcupine numbers clients densely
	ids := map[int]int{}
	for i := range ops {
		if _, ok := ids[ops[i].ClientId]; !ok {
			ids[ops[i].ClientId] = len(ids)
		}
		ops[i].ClientId = ids[ops[i].ClientId]
	}
	res, info := porcupine.CheckOperationsVerbose(c06Model, ops, 60*time.Second)
	switch res {
	case porcupine.Ok:
		c.Class("porcupine_ok")
	case porcupine.Unknown:
		c.Class("porcupine_unknown_timeout")
	case porcupine.Illegal:
		c.Class("porcupine_illegal")
		c.Violate("recorded history is not linearizable against the sequential route-table model", map[string]any{
			"gomaxprocs": procs, "writers": writers, "readers": readers, "witness": c06Witness(ops, info)})
	}
	if len(overlapByKind) > 0 {
		c.Nontrivial(fmt.Sprintf("%d|%v", c.Case, overlapByKind))
	}
	if c.WantSample("history") {
		n := len(x.events)
		if n > 10 {
			n = 10
		}
		c.Sample("history", map[string]any{"gomaxprocs": procs, "writers": writers, "readers": readers, "events": len(x.events), "first_events": x.events[:n], "overlaps": overlapByKind})
	}
}

func serveClass(o cOutput) string {
	switch {
	case o.Pattern == "" && o.Status == 404:
		return "404"
	case o.Kind == mon.K405:
		return "405"
	case o.Kind == mon.KOptions:
		return "options"
	case o.Kind == mon.KRoute:
		return "route_handler"
	}
	return "other"
}

// c06Witness extracts the partition that failed, in call order.
func c06Witness(ops []porcupine.Operation, info porcupine.LinearizationInfo) any {
	// find a partition that is illegal on its own
	by := map[string][]porcupine.Operation{}
	for _, op := range ops {
		k := c06Group(op.Input.(cInput).Pat)
		by[k] = append(by[k], op)
	}
	for k, part := range by {
		single := c06Model
		single.Partition = nil
		if porcupine.CheckOperations(single, part) == false {
			sort.Slice(part, func(i, j int) bool { return part[i].Call < part[j].Call })
			var lines []string
			for _, op := range part {
				lines = append(lines, fmt.Sprintf("[%d,%d] c%d %+v -> %+v", op.Call, op.Return, op.ClientId, op.Input, op.Output))
			}
			if len(lines) > 80 {
				lines = lines[len(lines)-80:]
			}
			return map[string]any{"pattern": k, "ops": lines}
		}
	}
	return "no single partition isolated"
}

// c06Await waits for done while watching a progress counter. Bounded progress instead of "eventually": if not one
// operation of any participant completes for c06StallSeconds (two minutes; an operation takes microseconds, and
// every goroutine of the workload counts), readers and writers block each other - no response at all is not "a
// response the router could have produced". The blocked goroutines are left behind; the case ends.
const c06StallSeconds = 120

func c06Await(c *Ctx, done <-chan struct{}, progress func() int64, what string) bool {
	last, idle := progress(), 0
	for {
		select {
		case <-done:
			return true
		case <-time.After(time.Second):
		}
		if p := progress(); p != last {
			last, idle = p, 0
			continue
		}
		idle++
		if idle >= c06StallSeconds {
			c.Violate(fmt.Sprintf("%s: no operation of any goroutine completed for %d s (%d had completed before): readers and writers of the WithLock router block each other", what, c06StallSeconds, last),
				map[string]any{"operations_completed": last})
			c.Abort()
			return false
		}
	}
}

func c06CheckUntouched(x *c06Run, u cPattern, m, v, path string, o *mon.Obs) {
	x.untouched.Add(1)
	bad := func(msg string) {
		x.violate(fmt.Sprintf("untouched route %q, %s %s: %s (status=%d pattern=%q handler=%v params=%s)", u.pat, m, path, msg, o.Status, o.NodePattern, o.H, fmtParams(o.Params)))
	}
	if o.Panicked {
		bad(fmt.Sprintf("panic %v", o.Panic))
		return
	}
	if o.NilHandler {
		bad("nil handler")
		return
	}
	// "{w}" competes with nothing but itself at top level for digit values; "/f/{x}" with /f/<digits> likewise
	if o.NodeNil || o.NodePattern != u.pat {
		bad("not answered by its own route")
		return
	}
	if u.param != "" && (len(o.Params) != 1 || o.Params[u.param] != v) {
		bad("foreign or missing parameters")
		return
	}
	if u.param == "" && len(o.Params) != 0 {
		bad("unexpected parameters")
		return
	}
	h := x.untouchedH[u.pat]
	switch m {
	case "GET", "POST", "HEAD":
		if o.H.Base != h {
			bad("foreign handler")
		}
	case "OPTIONS":
		if o.H.Base.Kind != mon.KOptions || o.H.Base.Pattern != u.pat {
			bad("not its OPTIONS handler")
		} else if got := strings.Join(mon.AllowSet(o.Header.Get("Allow")), ","); got != c06Full() {
			bad("Allow=" + got)
		}
	default:
		if o.H.Base.Kind != mon.K405 || o.H.Base.Pattern != u.pat {
			bad("not its 405 handler")
		}
	}
}

// ---- race log parsing (parent side) ----

var raceFrameRE = regexp.MustCompile(`^\s+github\.com/issue9/mux/v9(\S*)\(\)\s*$`)
var raceGenericRE = regexp.MustCompile(`\[[^\]]*\]`)

// parseRaceLogs reads GORACE log files and returns de-duplicated reports keyed
// by the pair of innermost mux functions plus the pair of outermost mux entry points.
func parseRaceLogs(work string) (total int, pairs map[string]string) {
	pairs = map[string]string{}
	files, _ := filepath.Glob(filepath.Join(work, "*.race.*"))
	for _, f := range files {
		b, err := os.ReadFile(f)
		if err != nil {
			continue
		}
		blocks := strings.Split(string(b), "WARNING: DATA RACE")
		for _, blk := range blocks[1:] {
			total++
			// the two access stacks are the first two paragraphs
			paras := strings.Split(blk, "\n\n")
			var sides []string
			for _, p := range paras {
				if len(sides) == 2 {
					break
				}
				if !strings.Contains(p, " by goroutine ") && !strings.Contains(p, " by main goroutine") {
					continue
				}
				var frames []string
				for _, line := range strings.Split(p, "\n") {
					if m := raceFrameRE.FindStringSubmatch(line); m != nil {
						frames = append(frames, raceGenericRE.ReplaceAllString(m[1], ""))
					}
				}
				if len(frames) == 0 {
					sides = append(sides, "(no mux frame)")
				} else {
					sides = append(sides, frames[0]+" <- "+frames[len(frames)-1])
				}
			}
			sort.Strings(sides)
			key := strings.Join(sides, " || ")
			if _, ok := pairs[key]; !ok {
				if len(blk) > 3000 {
					blk = blk[:3000]
				}
				pairs[key] = blk
			}
		}
	}
	return
}

func racePost(id string) func(res *Result, work, tier string, seed uint64) {
	return func(res *Result, work, tier string, seed uint64) {
		total, pairs := parseRaceLogs(work)
		res.Extra["race_reports"] = total
		keys := make([]string, 0, len(pairs))
		for k := range pairs {
			keys = append(keys, k)
		}
		sort.Strings(keys)
		res.Extra["race_distinct_site_pairs"] = keys
		var rv []Violation
		for _, k := range keys {
			rv = append(rv, Violation{Prop: id, Seed: seed, Tier: tier, Case: -3, Directed: "race:" + k,
				Msg: "data race reported by the race detector: " + k, Detail: pairs[k]})
		}
		res.Violations = append(rv, res.Violations...)
	}
}

// c06InFlight: deterministic schedules in which a write completes between the lookup of a request (tree lock released)
// and the execution of its handler: the CallFunc performs the write itself before invoking the handler. The response must
// be one a sequential router produces at some instant of the request: the handler selected at lookup time, and an Allow
// header naming a method set the pattern had at such an instant.
func c06InFlight() []Directed {
	type scen struct {
		id      string
		initial []string // methods registered before the request
		method  string   // request method
		write   func(r *mux.Router[*mon.Hnd], env *mon.Env)
		allows  []string // admissible Allow sets
	}
	const p = "/d/{id}/x"
	full := "GET,HEAD,OPTIONS,POST"
	scens := []scen{
		{"inflight-options-removeall", []string{"GET"}, "OPTIONS", func(r *mux.Router[*mon.Hnd], _ *mon.Env) { r.Remove(p) }, []string{"GET,HEAD,OPTIONS"}},
		{"inflight-405-removeall", []string{"GET"}, "PUT", func(r *mux.Router[*mon.Hnd], _ *mon.Env) { r.Remove(p) }, []string{"GET,HEAD,OPTIONS"}},
		{"inflight-options-remove-last-method", []string{"POST"}, "OPTIONS", func(r *mux.Router[*mon.Hnd], _ *mon.Env) { r.Remove(p, "POST") }, []string{"OPTIONS,POST"}},
		{"inflight-options-remove-one", []string{"GET", "POST"}, "OPTIONS", func(r *mux.Router[*mon.Hnd], _ *mon.Env) { r.Remove(p, "GET") }, []string{full, "OPTIONS,POST"}},
		{"inflight-options-remove-one-by-one", []string{"GET", "POST"}, "OPTIONS", func(r *mux.Router[*mon.Hnd], _ *mon.Env) { r.Remove(p, "GET"); r.Remove(p, "POST") }, []string{full, "OPTIONS,POST"}},
		{"inflight-options-clean", []string{"GET", "POST"}, "OPTIONS", func(r *mux.Router[*mon.Hnd], _ *mon.Env) { r.Clean() }, []string{full}},
		{"inflight-405-prefix-clean", []string{"GET", "POST"}, "DELETE", func(r *mux.Router[*mon.Hnd], _ *mon.Env) { r.Prefix("/d/").Clean() }, []string{full}},
		{"inflight-options-handle", []string{"GET"}, "OPTIONS", func(r *mux.Router[*mon.Hnd], env *mon.Env) { r.Handle(p, env.NewHnd(mon.KRoute, p), nil, "POST") }, []string{"GET,HEAD,OPTIONS", full}},
		{"inflight-options-replace", []string{"GET"}, "OPTIONS", func(r *mux.Router[*mon.Hnd], env *mon.Env) {
			r.Remove(p)
			r.Handle(p, env.NewHnd(mon.KRoute, p), nil, "POST")
		}, []string{"GET,HEAD,OPTIONS", "OPTIONS,POST"}},
		{"inflight-options-removeall-with-children", []string{"GET"}, "OPTIONS", func(r *mux.Router[*mon.Hnd], _ *mon.Env) { r.Remove(p) }, []string{"GET,HEAD,OPTIONS"}},
	}
	var out []Directed
	// Process-wide tables are filled lazily: the first use of a method combination, of a compiled expression, happens
	// once per process. This case runs first in a fresh process: eight goroutines, each with a WithLock router of its
	// own, register routes with method sets nobody used before and build non-strict URLs of patterns whose regexp text
	// is new, all at once (the race detector is the judge; the answers are checked too).
	out = append(out, Directed{ID: "first-use-of-process-wide-tables", Run: func(c *Ctx) {
		all := []string{"GET", "POST", "DELETE", "PUT", "PATCH", "CONNECT"}
		var wg sync.WaitGroup
		var mu sync.Mutex
		var bad []string
		start := make(chan struct{})
		for g := 0; g < 8; g++ {
			wg.Add(1)
			go func(g int) {
				defer wg.Done()
				env := mon.NewEnv()
				r := env.NewRouter(fmt.Sprintf("first%d", g), mux.WithLock(true))
				<-start
				for i := 1; i < 64; i++ {
					mask := (i*8 + g) % 64
					if mask == 0 {
						continue
					}
					var ms []string
					for b, m := range all {
						if mask&(1<<b) != 0 {
							ms = append(ms, m)
						}
					}
					p := fmt.Sprintf("/first/%d/%d/{id:\\d+}.g%dx%d", g, i, g, i)
					r.Handle(p, env.NewHnd(mon.KRoute, p), nil, ms...)
					want := append([]string{"OPTIONS"}, ms...)
					if mask&1 != 0 {
						want = append(want, "HEAD")
					}
					sort.Strings(want)
					if got := strings.Join(mon.SortedCopy(takeRoutes(r)[p]), ","); got != strings.Join(want, ",") {
						mu.Lock()
						bad = append(bad, fmt.Sprintf("Routes()[%q]=%s, registered %v", p, got, ms))
						mu.Unlock()
						return
					}
					u, err := r.URL(false, p, map[string]string{"id": "7"})
					if wantU := fmt.Sprintf("/first/%d/%d/7.g%dx%d", g, i, g, i); err != nil || u != wantU {
						mu.Lock()
						bad = append(bad, fmt.Sprintf("URL(false,%q)=%q,%v", p, u, err))
						mu.Unlock()
						return
					}
					if err := mux.CheckSyntax(p); err != nil {
						mu.Lock()
						bad = append(bad, fmt.Sprintf("CheckSyntax(%q)=%v", p, err))
						mu.Unlock()
						return
					}
				}
			}(g)
		}
		close(start)
		wg.Wait()
		c.EvalN(8 * 63)
		c.Class("first_use_of_process_wide_tables")
		if len(bad) > 0 {
			c.Violate("first concurrent use of method sets / expressions in a fresh process: "+bad[0], map[string]any{"more": bad})
		}
	}})
	// the requests that select the root node ("*" and the empty path, any method) must leave the tree lock free: a write
	// afterwards completes. Bounded progress instead of "eventually": one Handle on an otherwise idle router gets 30 s.
	out = append(out, Directed{ID: "lock-free-after-root-requests", Run: func(c *Ctx) {
		env := mon.NewEnv()
		r := env.NewRouter("rootreq", mux.WithLock(true), mux.WithTrace(env.NewHnd(mon.KTrace, "")))
		r.Handle("/a/{id}", env.NewHnd(mon.KRoute, "/a/{id}"), nil, "GET")
		for _, q := range []mon.Req{{Method: "GET", Path: "*"}, {Method: "GET", Path: ""}, {Method: "OPTIONS", Path: "*"}, {Method: "POST", Path: "*"}, {Method: "TRACE", Path: "*"}, {Method: "HEAD", Path: ""},
			{Method: "BOGUS", Path: "*"}, {Method: "GET", Path: "/nothing"}, {Method: "PUT", Path: "/a/7"}, {Method: "OPTIONS", Path: "/a/7"}} {
			o := mon.Do(r, q)
			c.Eval()
			if o.Panicked {
				c.Violate(fmt.Sprintf("%s %q panicked: %v", q.Method, q.Path, o.Panic), nil)
				return
			}
			done := make(chan any, 1)
			go func() {
				defer func() { done <- recover() }()
				r.Handle("/b/{id}", env.NewHnd(mon.KRoute, "/b/{id}"), nil, "GET")
				r.Remove("/b/{id}")
				_ = takeRoutes(r)
			}()
			select {
			case p := <-done:
				if p != nil {
					c.Violate(fmt.Sprintf("write after %s %q panicked: %v", q.Method, q.Path, p), nil)
					return
				}
			case <-time.After(30 * time.Second):
				c.Violate(fmt.Sprintf("after the request %s %q returned, Handle/Remove/Routes on the otherwise idle WithLock router did not complete within 30 s: the request left the tree lock held", q.Method, q.Path), map[string]any{"request": q.Method + " " + q.Path})
				return
			}
			c.Class("write_after_root_request_completed")
		}
	}})
	// one method of one route is toggled as fast as possible while eight readers keep asking for the route's Allow set
	// (OPTIONS, a 405, Routes()): whenever they look, it is one of the two sets the route ever has - with TRACE in both.
	// A value that is published in two steps, or cached across a change, shows up here or nowhere.
	out = append(out, Directed{ID: "hot-toggle-allow-views", Run: func(c *Ctx) {
		n := 30000
		if c.Tier == "thorough" {
			n = 600000
		}
		env := mon.NewEnv()
		r := env.NewRouter("hot", mux.WithLock(true), mux.WithTrace(env.NewHnd(mon.KTrace, "")))
		r.Handle("/h/{id}", env.NewHnd(mon.KRoute, "/h/{id}"), nil, "GET")
		legal := map[string]bool{"GET,HEAD,OPTIONS,POST,TRACE": true, "GET,HEAD,OPTIONS,TRACE": true}
		var stop atomic.Bool
		var looks atomic.Int64
		var mu sync.Mutex
		var bad []string
		var wg sync.WaitGroup
		for g := 0; g < 8; g++ {
			wg.Add(1)
			go func(g int) {
				defer wg.Done()
				for i := 0; !stop.Load(); i++ {
					var got, what string
					switch (i + g) % 3 {
					case 0:
						o := mon.Do(r, mon.Req{Method: "OPTIONS", Path: "/h/7"})
						got, what = strings.Join(mon.AllowSet(o.Header.Get("Allow")), ","), "Allow of OPTIONS"
					case 1:
						o := mon.Do(r, mon.Req{Method: "PUT", Path: "/h/7"})
						got, what = strings.Join(mon.AllowSet(o.Header.Get("Allow")), ","), "Allow of the 405 answer"
					default:
						got, what = strings.Join(mon.SortedCopy(takeRoutes(r)["/h/{id}"]), ","), "Routes()"
					}
					looks.Add(1)
					if !legal[got] {
						mu.Lock()
						if len(bad) < 5 {
							bad = append(bad, what+" = "+got)
						}
						mu.Unlock()
						return
					}
				}
			}(g)
		}
		// the writer reads its own writes: once Handle / Remove has returned, the next answer shows the new set, whatever
		// the readers did in the meantime (a value they cached or republished during the write would show here)
		own := func(want string) bool {
			o := mon.Do(r, mon.Req{Method: "OPTIONS", Path: "/h/7"})
			if got := strings.Join(mon.AllowSet(o.Header.Get("Allow")), ","); got != want {
				mu.Lock()
				bad = append(bad, "after the write had returned, Allow of OPTIONS = "+got+", expected "+want)
				mu.Unlock()
				return false
			}
			return true
		}
		var toggles atomic.Int64
		done := make(chan struct{})
		go func() {
			defer close(done)
			for i := 0; i < n; i++ {
				r.Handle("/h/{id}", env.NewHnd(mon.KRoute, "/h/{id}"), nil, "POST")
				if i%4 == 0 && !own("GET,HEAD,OPTIONS,POST,TRACE") {
					break
				}
				r.Remove("/h/{id}", "POST")
				if i%4 == 2 && !own("GET,HEAD,OPTIONS,TRACE") {
					break
				}
				toggles.Add(1)
			}
			stop.Store(true)
			wg.Wait()
		}()
		if !c06Await(c, done, func() int64 { return toggles.Load() + looks.Load() }, "hot toggle of one route") {
			return
		}
		c.EvalN(int(looks.Load()))
		c.ClassN("hot_toggle_allow_views_looked_at", int(looks.Load()))
		if len(bad) > 0 {
			c.Violate("while POST of one route was toggled, a reader saw a method set the route never has: "+bad[0], map[string]any{"toggles": n, "looks": looks.Load(), "more": bad})
		}
	}})
	// the same for the server-wide set: "OPTIONS *" names the methods registered on at least one route. Four routes with
	// four methods are never touched, POST of a fifth route is toggled: every answer (the Allow header, and what the
	// CallFunc reads from the node) is one of the two sets the router ever has.
	out = append(out, Directed{ID: "hot-toggle-server-wide-allow", Run: func(c *Ctx) {
		n := 30000
		if c.Tier == "thorough" {
			n = 600000
		}
		for _, trace := range []bool{false, true} {
			env := mon.NewEnv()
			opts := []mux.Option{mux.WithLock(true)}
			legal := map[string]bool{"DELETE,GET,OPTIONS,PATCH,PUT": true, "DELETE,GET,OPTIONS,PATCH,POST,PUT": true}
			if trace {
				opts = append(opts, mux.WithTrace(env.NewHnd(mon.KTrace, "")))
				legal = map[string]bool{"DELETE,GET,OPTIONS,PATCH,PUT,TRACE": true, "DELETE,GET,OPTIONS,PATCH,POST,PUT,TRACE": true}
			}
			r := env.NewRouter("wide", opts...)
			for p, m := range map[string]string{"/a": "GET", "/b": "DELETE", "/c/{id}": "PUT", "/d": "PATCH"} {
				r.Handle(p, env.NewHnd(mon.KRoute, p), nil, m)
			}
			noHead := func(ms []string) string {
				out := make([]string, 0, len(ms))
				for _, m := range ms {
					if m != "HEAD" { // HEAD may or may not be listed
						out = append(out, m)
					}
				}
				sort.Strings(out)
				return strings.Join(out, ",")
			}
			var stop atomic.Bool
			var looks atomic.Int64
			var mu sync.Mutex
			var bad []string
			var wg sync.WaitGroup
			look := func() bool {
				o := mon.Do(r, mon.Req{Method: "OPTIONS", Path: "*"})
				looks.Add(1)
				a, m, h := noHead(mon.AllowSet(o.Header.Get("Allow"))), noHead(o.NodeMethods), noHead(mon.AllowSet(o.NodeAllow))
				if o.Status != 200 || !legal[a] || !legal[m] || !legal[h] {
					mu.Lock()
					if len(bad) < 5 {
						bad = append(bad, fmt.Sprintf("status %d, Allow header %q, Node().Methods() %q, Node().AllowHeader() %q", o.Status, a, m, h))
					}
					mu.Unlock()
					return false
				}
				return true
			}
			for g := 0; g < 8; g++ {
				wg.Add(1)
				go func() {
					defer wg.Done()
					for !stop.Load() && look() {
					}
				}()
			}
			var toggles atomic.Int64
			done := make(chan struct{})
			go func() {
				defer close(done)
				for i := 0; i < n; i++ {
					r.Handle("/t", env.NewHnd(mon.KRoute, "/t"), nil, "POST")
					if i%3 == 0 {
						r.Remove("/t")
					} else {
						r.Remove("/t", "POST")
					}
					toggles.Add(1)
				}
				stop.Store(true)
				wg.Wait()
			}()
			if !c06Await(c, done, func() int64 { return toggles.Load() + looks.Load() }, "hot toggle beside the server-wide method set") {
				return
			}
			c.EvalN(int(looks.Load()))
			c.ClassN("hot_toggle_server_wide_allow_looked_at", int(looks.Load()))
			if len(bad) > 0 {
				c.Violate("while POST of one route was toggled, OPTIONS * named a method set the router never has: "+bad[0], map[string]any{"toggles": n, "with_trace": trace, "looks": looks.Load(), "more": bad})
				return
			}
		}
	}})
	for _, sc := range scens {
		sc := sc
		out = append(out, Directed{ID: sc.id, Run: func(c *Ctx) {
			for _, lock := range []bool{true, false} { // the schedule needs no second goroutine, so it is legal without WithLock too
				env := mon.NewEnv()
				r := env.NewRouter("inflight", mux.WithLock(lock))
				r.Handle("/d/other", env.NewHnd(mon.KRoute, "/d/other"), nil, "GET")
				if strings.HasSuffix(sc.id, "with-children") {
					r.Handle(p+"/below", env.NewHnd(mon.KRoute, p+"/below"), nil, "GET") // the emptied node stays in the tree
				}
				r.Handle(p, env.NewHnd(mon.KRoute, p), nil, sc.initial...)
				fired := false
				env.OnCall = func() {
					if !fired {
						fired = true
						sc.write(r, env)
					}
				}
				o := mon.Do(r, mon.Req{Method: sc.method, Path: "/d/7/x"})
				env.OnCall = nil
				c.Eval()
				c.Class("write_between_lookup_and_handler")
				want := map[string]int{"OPTIONS": 200}[sc.method]
				kind := mon.KOptions
				if want == 0 {
					want, kind = 405, mon.K405
				}
				got := ""
				if o.Header != nil {
					got = strings.Join(mon.AllowSet(o.Header.Get("Allow")), ",")
				}
				ok := !o.Panicked && o.H != nil && o.H.Base.Kind == kind && o.H.Base.Pattern == p && o.Status == want && o.Params["id"] == "7"
				okAllow := false
				for _, a := range sc.allows {
					okAllow = okAllow || a == got
				}
				if !ok || !okAllow {
					c.Violate("a request whose lookup preceded a completed write is answered with a response no sequential router gives", map[string]any{
						"schedule": sc.id, "with_lock": lock, "pattern": p, "registered_before": sc.initial, "request": sc.method + " /d/7/x",
						"status": o.Status, "allow": got, "admissible_allow_sets": sc.allows, "panicked": o.Panicked})
					return
				}
			}
		}})
	}
	return out
}

func init() {
	Register(&Engine{
		ID:       "C06",
		Directed: c06InFlight,
		Race:     true,
		Cases:    func(t string) int { return map[string]int{"quick": 192, "thorough": 6000}[t] },
		Run:      runC06,
		Post:     racePost("C06"),
		Rule: "case = one history on a fresh WithLock router: 2-4 writers (Handle with unique handler ids, Remove, Remove-all, Prefix.Clean; owned and contended patterns that split/re-merge the nodes of untouched routes and create/destroy the first-byte index) x 4-8 readers (ServeHTTP, Routes, strict/non-strict URL), yields injected through builders/middleware/interceptor/CallFunc, GOMAXPROCS in {2,4,16}; every OPTIONS/405 answer of a toggled route adds a second event (the Allow set its builder wrote, same window, linearized on its own: it must be the pattern's method set at some instant of the request, never empty); an ordered writer keeps a cross-pattern invariant that every Routes() snapshot must satisfy; 10 directed single-goroutine schedules perform a write between lookup and handler; evaluation = one recorded client event; " +
			"non-trivial (distinct by history) = history in which at least one read overlapped a write of the same pattern (overlaps counted by write kind)",
		Floors: func(t string) map[string]int64 {
			if t == "quick" {
				return map[string]int64{"read_overlapping_handle": 20, "read_overlapping_remove": 5, "untouched_route_served": 3000, "porcupine_ok": 50, "allow_header_of_toggled_route_observed": 1000, "write_between_lookup_and_handler": 20, "routes_snapshot_with_ordered_pair_live": 200}
			}
			return map[string]int64{"read_overlapping_handle": 1000, "read_overlapping_remove": 250, "untouched_route_served": 150000, "porcupine_ok": 2500, "allow_header_of_toggled_route_observed": 50000, "write_between_lookup_and_handler": 20}
		},
		Assume: []string{
			"schedules are sampled, not enumerated; the race detector only sees accesses the workload performs",
			"Use is not part of the concurrent mix (not claimed by the property)",
			"Prefix.Clean is logged as one operation per affected pattern (more permissive, never a false alarm)",
		},
		Shards: func(t string) int { return 8 },
	})
}
