package eng

import (
	"fmt"
	"strings"

	"github.com/issue9/mux/v9"

	"verifharness/gen"
	"verifharness/mon"
	"verifharness/ref"
)

// C09: middlewares wrap every handler in the documented onion order.
// Model (written from the property): executed chain, outermost first, =
// reverse(Use list of the router incl. what Group.Use/Group.Add contributed)
// ++ for each prefix level from the outermost inwards reverse(its arguments)
// ++ reverse(arguments of the registration call).

type mwReg struct {
	base  *mon.Hnd
	inner []string // as handed over by the facades: innermost first
}

type mwEntry struct {
	methods map[string]mwReg
	first   []string // inner list of the call that created the OPTIONS/405 handlers
	opt     int64    // base ids of the automatic handlers of this generation (from the builder log)
	m405    int64
}

type mwRouter struct {
	name    string
	r       *mux.Router[*mon.Hnd]
	use     []string // Use list in order of addition
	trace   bool
	pats    map[string]*mwEntry
	rootOpt int64 // base id of the OPTIONS * handler
	nf      int64 // base id of the 404 handler
	traceH  int64
}

// mwObj is a facade object that stays around: registrations made through it later must still carry exactly
// its own middleware list (own arguments first, then the parent's), whatever was derived from it meanwhile.
type mwObj struct {
	rt      *mwRouter
	pattern string
	mws     []string
	p       *mux.Prefix[*mon.Hnd]
	res     *mux.Resource[*mon.Hnd]
	depth   int
}

type mwWorld struct {
	objs        []*mwObj
	c           *Ctx
	env         *mon.Env
	seq         int
	routers     []*mwRouter
	group       *mux.Group[*mon.Hnd]
	gUse        []string
	inGroup     map[string]bool
	ops         []string
	depthMax    int
	useAfterReg bool
	lent        []lentMW
	poison      muxMW
}

type lentMW struct {
	a    *mwArena
	lent []muxMW
}

// settle runs after every call of the program: the library has not written to the middleware lists it was given (nor
// to their spare capacity), and from now on those lists are the caller's again - it overwrites them, as a program
// reusing one buffer for all its registrations does. A poison middleware that turns up in any chain later on means
// the library kept the caller's slice instead of copying it.
func (w *mwWorld) settle() {
	for _, l := range w.lent {
		l.a.check(l.lent)
		for i := range l.lent {
			l.lent[i] = w.poison
		}
	}
	w.lent = w.lent[:0]
}

var c09Patterns = []string{"/m1", "/m2/{id}", "/m3/{id}/x", "/m4/a/b", `/m5/{n:\d+}`, "/pre/fix/r6", "/pre/{z}/r7", "/m8/{-q}/e"}
var c09Witness = map[string]string{"/m1": "/m1", "/m2/{id}": "/m2/7", "/m3/{id}/x": "/m3/7/x", "/m4/a/b": "/m4/a/b", `/m5/{n:\d+}`: "/m5/42",
	"/pre/fix/r6": "/pre/fix/r6", "/pre/{z}/r7": "/pre/7/r7", "/m8/{-q}/e": "/m8/7/e"}

// on a router without WithTrace, TRACE is an ordinary method that can be registered by hand
func c09MethodsFor(rt *mwRouter) []string {
	if rt.trace {
		return gen.AnyMethods
	}
	return append(append([]string{}, gen.AnyMethods...), "TRACE")
}

func (w *mwWorld) names(prefix string, n int) ([]string, []muxMW) {
	var ns []string
	var ms []muxMW
	for i := 0; i < n; i++ {
		w.seq++
		name := fmt.Sprintf("%s%d", prefix, w.seq)
		ns = append(ns, name)
		ms = append(ms, w.env.MW(name))
	}
	if w.poison == nil {
		w.poison = w.env.MW("POISON-the-callers-reused-slice")
	}
	a, lent := lendMiddlewares("a call of the middleware program ("+prefix+")", ms)
	w.lent = append(w.lent, lentMW{a, lent})
	return ns, lent
}

func reversed(xs []string) []string {
	out := make([]string, len(xs))
	for i, x := range xs {
		out[len(xs)-1-i] = x
	}
	return out
}

func (w *mwWorld) log(f string, a ...any) { w.ops = append(w.ops, fmt.Sprintf(f, a...)) }

func (w *mwWorld) fail(msg string, extra map[string]any) {
	m := map[string]any{"program": w.ops}
	for k, v := range extra {
		m[k] = v
	}
	w.c.Violate(msg, m)
}

// wrapKey identifies one wrapped handler as a middleware factory sees it.
type wrapKey struct {
	base   int64
	method string
	router string
}

// wrapped lists the handlers Use has to wrap on this router: every one exactly once per middleware.
func (rt *mwRouter) wrapped() []wrapKey {
	n := rt.name
	ks := []wrapKey{{rt.rootOpt, "OPTIONS", n}, {rt.nf, "", n}}
	if rt.trace {
		ks = append(ks, wrapKey{rt.traceH, "TRACE", n})
	}
	for _, e := range rt.pats {
		for m, reg := range e.methods {
			ks = append(ks, wrapKey{reg.base.ID, m, n})
			if m == "GET" {
				ks = append(ks, wrapKey{reg.base.ID, "HEAD", n})
			}
		}
		ks = append(ks, wrapKey{e.opt, "OPTIONS", n}, wrapKey{e.m405, "", n})
	}
	return ks
}

// checkCalls is the "exactly once per wrapped handler" monitor for one API call: no (factory,
// handler, method) triple may occur twice, and every handler the model knows must have been wrapped
// by every factory named. Wrapped handlers the model does not know (a future automatic handler) are tolerated.
func (w *mwWorld) checkCalls(what string, calls []mon.MWCall, names []string, want []wrapKey) {
	type k struct {
		name string
		wrapKey
	}
	seen := map[k]int{}
	for _, c := range calls {
		seen[k{c.Name, wrapKey{c.NextBase, c.Method, c.Router}}]++
		if !contains(names, c.Name) {
			// a factory runs once per handler it wraps, when it is given (or when the handler is made) - not again because
			// a later call has to wrap the same handler in something else
			w.fail(fmt.Sprintf("%s: factory %s, which is no part of this call, was invoked (for base h%d, method %q, router %q)", what, c.Name, c.NextBase, c.Method, c.Router), nil)
			return
		}
	}
	for key, n := range seen {
		if n > 1 {
			w.fail(fmt.Sprintf("%s: factory %s was invoked %d times for one wrapped handler (base h%d, method %q)", what, key.name, n, key.base, key.method), nil)
			return
		}
	}
	for _, name := range names {
		for _, wk := range want {
			if seen[k{name, wk}] != 1 {
				w.fail(fmt.Sprintf("%s: factory %s was not invoked for wrapped handler (base h%d, method %q)", what, name, wk.base, wk.method), nil)
				return
			}
		}
	}
}

func (w *mwWorld) newRouter(name string, viaGroup bool, trace bool) *mwRouter {
	rt := &mwRouter{name: name, trace: trace, pats: map[string]*mwEntry{}}
	var o []mux.Option
	w.env.TakeMWCalls()
	nb := len(w.env.Builders)
	var th *mon.Hnd
	if trace {
		th = w.env.NewHnd(mon.KTrace, "")
		o = []mux.Option{mux.WithTrace(th)}
		rt.traceH = th.ID
	}
	if viaGroup {
		rt.r = w.group.New(name, mux.NewPathVersion("", "never-"+name), o...)
		rt.use = append(rt.use, w.gUse...)
		w.inGroup[name] = true
		rt.nf = w.env.Group404.ID
		w.log("Group.New(%s trace=%v)", name, trace)
	} else {
		rt.r = w.env.NewRouter(name, o...)
		rt.nf = w.env.NotFoundOf[name].ID
		w.log("NewRouter(%s trace=%v)", name, trace)
	}
	for _, b := range w.env.Builders[nb:] {
		if b.Kind == mon.KOptions && b.Pattern == "" {
			rt.rootOpt = b.H.ID
		}
	}
	w.checkCalls("creating router "+name, w.env.TakeMWCalls(), rt.use, rt.wrapped())
	w.routers = append(w.routers, rt)
	return rt
}

func (w *mwWorld) use(rt *mwRouter) {
	ns, ms := w.names("u", w.c.R.Range(1, 2))
	w.env.TakeMWCalls()
	rt.r.Use(ms...)
	rt.use = append(rt.use, ns...)
	w.log("%s.Use(%v)", rt.name, ns)
	w.checkCalls(fmt.Sprintf("%s.Use(%v)", rt.name, ns), w.env.TakeMWCalls(), ns, rt.wrapped())
	if len(rt.pats) > 0 {
		w.useAfterReg = true
	}
}

func (w *mwWorld) groupUse() {
	ns, ms := w.names("g", w.c.R.Range(1, 2))
	w.env.TakeMWCalls()
	var want []wrapKey
	for _, rt := range w.routers {
		if w.inGroup[rt.name] {
			want = append(want, rt.wrapped()...)
		}
	}
	w.group.Use(ms...)
	w.gUse = append(w.gUse, ns...)
	for _, rt := range w.routers {
		if w.inGroup[rt.name] {
			rt.use = append(rt.use, ns...)
			if len(rt.pats) > 0 {
				w.useAfterReg = true
			}
		}
	}
	w.log("Group.Use(%v)", ns)
	want = append(want, wrapKey{w.env.Group404.ID, "", ""}) // the group's own not-found handler, router name ""
	w.checkCalls(fmt.Sprintf("Group.Use(%v)", ns), w.env.TakeMWCalls(), ns, want)
}

// rejectedGroupAdd: Add with a name that is already taken (the same router again, or another router object of that
// name) panics; it must not have invoked any middleware factory nor changed what the rejected router does.
func (w *mwWorld) rejectedGroupAdd() {
	var in []*mwRouter
	for _, rt := range w.routers {
		if w.inGroup[rt.name] {
			in = append(in, rt)
		}
	}
	if len(in) == 0 || len(w.gUse) == 0 {
		return
	}
	taken := ref.Pick(w.c.R, in)
	victim := taken // the same object again
	var twin *mwRouter
	if w.c.R.Bool() { // another router object with the taken name, with a route of its own
		twin = &mwRouter{name: taken.name, pats: map[string]*mwEntry{}}
		nb := len(w.env.Builders)
		twin.r = w.env.NewRouter(taken.name)
		twin.nf = w.env.NotFoundOf[taken.name].ID
		for _, b := range w.env.Builders[nb:] {
			if b.Kind == mon.KOptions && b.Pattern == "" {
				twin.rootOpt = b.H.ID
			}
		}
		victim = twin
	}
	w.env.TakeMWCalls()
	panicked := false
	func() {
		defer func() {
			if recover() != nil {
				panicked = true
			}
		}()
		w.group.Add(nil, victim.r)
	}()
	calls := w.env.TakeMWCalls()
	w.log("Group.Add(%s) again -> rejected", taken.name)
	w.c.Eval()
	w.c.Class("rejected_group_add")
	if !panicked {
		w.fail("Group.Add with a taken name did not panic", nil)
		return
	}
	if len(calls) != 0 {
		w.fail(fmt.Sprintf("a rejected Group.Add invoked middleware factories %d times (first: %s for method %q on router %q)", len(calls), calls[0].Name, calls[0].Method, calls[0].Router), nil)
		return
	}
	if twin != nil {
		// the rejected router keeps serving with its own (empty) Use list, also for routes registered afterwards
		w.handleOn(twin)
		w.probeRouter(twin)
	}
}

// handleOn registers one route directly on rt (used for routers that are not part of the random op mix).
func (w *mwWorld) handleOn(rt *mwRouter) {
	pattern := ref.Pick(w.c.R, c09Patterns)
	h := w.env.NewHnd(mon.KRoute, pattern)
	regNames, regMW := w.names("r", 1)
	w.env.TakeMWCalls()
	nb := len(w.env.Builders)
	rt.r.Handle(pattern, h, regMW, "GET")
	w.mirror(rt, pattern, []string{"GET"}, h, regNames, nb)
}

func (w *mwWorld) groupAdd(rt *mwRouter) {
	w.env.TakeMWCalls()
	w.group.Add(mux.NewPathVersion("", "never-"+rt.name), rt.r)
	rt.use = append(rt.use, w.gUse...)
	w.inGroup[rt.name] = true
	w.log("Group.Add(%s)", rt.name)
	if len(rt.pats) > 0 && len(w.gUse) > 0 {
		w.useAfterReg = true
	}
	w.checkCalls("Group.Add("+rt.name+")", w.env.TakeMWCalls(), w.gUse, rt.wrapped())
}

// newFacade creates a persistent Prefix / nested Prefix (also with an empty name) / Resource object.
func (w *mwWorld) newFacade(rt *mwRouter) {
	r := w.c.R
	pattern := ref.Pick(r, c09Patterns)
	names, ms := w.names("f", r.Intn(3))
	var parents []*mwObj
	for _, o := range w.objs {
		if o.rt == rt && o.p != nil && strings.HasPrefix(pattern, o.pattern) {
			parents = append(parents, o)
		}
	}
	switch x := r.Intn(4); {
	case x == 0 || len(parents) == 0:
		cut := r.Intn(len(pattern) + 1)
		o := &mwObj{rt: rt, pattern: pattern[:cut], mws: names, depth: 1}
		o.p = rt.r.Prefix(o.pattern, ms...)
		w.objs = append(w.objs, o)
		w.log("obj%d := %s.Prefix(%q, %v)", len(w.objs)-1, rt.name, o.pattern, names)
	case x == 1:
		o := &mwObj{rt: rt, pattern: pattern, mws: names, depth: 1}
		o.res = rt.r.Resource(pattern, ms...)
		w.objs = append(w.objs, o)
		w.log("obj%d := %s.Resource(%q, %v)", len(w.objs)-1, rt.name, pattern, names)
	case x == 2:
		par := ref.Pick(r, parents)
		rest := pattern[len(par.pattern):]
		cut := r.Intn(len(rest) + 1)
		if r.Chance(1, 3) {
			cut = 0 // a nested prefix with an empty name: must not change what the parent registers later
		}
		o := &mwObj{rt: rt, pattern: par.pattern + rest[:cut], mws: append(append([]string{}, names...), par.mws...), depth: par.depth + 1}
		o.p = par.p.Prefix(rest[:cut], ms...)
		w.objs = append(w.objs, o)
		w.log("obj%d := (prefix %q).Prefix(%q, %v)", len(w.objs)-1, par.pattern, rest[:cut], names)
	default:
		par := ref.Pick(r, parents)
		o := &mwObj{rt: rt, pattern: pattern, mws: append(append([]string{}, names...), par.mws...), depth: par.depth + 1}
		o.res = par.p.Resource(pattern[len(par.pattern):], ms...)
		w.objs = append(w.objs, o)
		w.log("obj%d := (prefix %q).Resource(%q, %v)", len(w.objs)-1, par.pattern, pattern[len(par.pattern):], names)
	}
}

// handleVia registers through a persistent facade object created earlier.
func (w *mwWorld) handleVia(rt *mwRouter) bool {
	r := w.c.R
	var mine []*mwObj
	for _, o := range w.objs {
		if o.rt == rt {
			mine = append(mine, o)
		}
	}
	if len(mine) == 0 {
		return false
	}
	o := ref.Pick(r, mine)
	pattern := o.pattern
	if o.p != nil {
		var fits []string
		for _, p := range c09Patterns {
			if strings.HasPrefix(p, o.pattern) {
				fits = append(fits, p)
			}
		}
		if len(fits) == 0 {
			return false
		}
		pattern = ref.Pick(r, fits)
	}
	e := rt.pats[pattern]
	var free []string
	for _, m := range c09MethodsFor(rt) {
		if e == nil || e.methods[m].base == nil {
			free = append(free, m)
		}
	}
	if len(free) == 0 {
		return false
	}
	ref.Shuffle(r, free)
	methods := free[:r.Range(1, min(2, len(free)))]
	h := w.env.NewHnd(mon.KRoute, pattern)
	regNames, regMW := w.names("r", r.Intn(3))
	inner := append(append([]string{}, regNames...), o.mws...)
	w.env.TakeMWCalls()
	nb := len(w.env.Builders)
	if o.p != nil {
		o.p.Handle(pattern[len(o.pattern):], h, regMW, methods...)
	} else {
		o.res.Handle(h, regMW, methods...)
	}
	if o.depth > w.depthMax {
		w.depthMax = o.depth
	}
	w.log("%s: through an existing facade object (pattern %q, mws %v): %q %v reg=%v", rt.name, o.pattern, o.mws, pattern, methods, regNames)
	w.c.Class("registration_through_persistent_facade")
	w.mirror(rt, pattern, methods, h, inner, nb)
	return true
}

// mirror records an accepted registration in the model and checks the factory calls it caused.
func (w *mwWorld) mirror(rt *mwRouter, pattern string, methods []string, h *mon.Hnd, inner []string, nb int) {
	e := rt.pats[pattern]
	first := e == nil
	if first {
		e = &mwEntry{methods: map[string]mwReg{}, first: inner}
		rt.pats[pattern] = e
		for _, b := range w.env.Builders[nb:] {
			if b.Pattern == pattern && b.Kind == mon.KOptions {
				e.opt = b.H.ID
			} else if b.Pattern == pattern {
				e.m405 = b.H.ID
			}
		}
	}
	var want []wrapKey
	for _, m := range methods {
		e.methods[m] = mwReg{base: h, inner: inner}
		want = append(want, wrapKey{h.ID, m, rt.name})
		if m == "GET" {
			want = append(want, wrapKey{h.ID, "HEAD", rt.name})
		}
	}
	if first {
		want = append(want, wrapKey{e.opt, "OPTIONS", rt.name}, wrapKey{e.m405, "", rt.name})
	}
	w.checkCalls("registration of "+pattern, w.env.TakeMWCalls(), append(append([]string{}, inner...), rt.use...), want)
}

// handle registers through a random facade nesting and mirrors the lists.
func (w *mwWorld) handle(rt *mwRouter) {
	r := w.c.R
	if r.Chance(1, 2) && w.handleVia(rt) {
		return
	}
	pattern := ref.Pick(r, c09Patterns)
	e := rt.pats[pattern]
	var free []string
	for _, m := range c09MethodsFor(rt) {
		if e == nil || e.methods[m].base == nil {
			free = append(free, m)
		}
	}
	if len(free) == 0 {
		return
	}
	ref.Shuffle(r, free)
	methods := free[:r.Range(1, min(3, len(free)))]
	h := w.env.NewHnd(mon.KRoute, pattern)
	regNames, regMW := w.names("r", r.Intn(4))
	var inner []string
	inner = append(inner, regNames...)
	desc := ""
	depth := 0
	w.env.TakeMWCalls()
	nb := len(w.env.Builders)
	switch r.Intn(5) {
	case 0: // Router.Handle
		rt.r.Handle(pattern, h, regMW, methods...)
		desc = "Handle"
	case 1: // Prefix
		cut := r.Intn(len(pattern) + 1)
		pn, pm := w.names("p", r.Intn(3))
		rt.r.Prefix(pattern[:cut], pm...).Handle(pattern[cut:], h, regMW, methods...)
		inner = append(inner, pn...)
		desc = fmt.Sprintf("Prefix(%q,%v).Handle", pattern[:cut], pn)
		depth = 1
	case 2: // Prefix.Prefix
		a := r.Intn(len(pattern) + 1)
		b := a + r.Intn(len(pattern)-a+1)
		pn, pm := w.names("p", r.Intn(3))
		qn, qm := w.names("q", r.Intn(3))
		rt.r.Prefix(pattern[:a], pm...).Prefix(pattern[a:b], qm...).Handle(pattern[b:], h, regMW, methods...)
		inner = append(append(inner, qn...), pn...)
		desc = fmt.Sprintf("Prefix(%q,%v).Prefix(%q,%v).Handle", pattern[:a], pn, pattern[a:b], qn)
		depth = 2
	case 3: // Resource
		sn, sm := w.names("s", r.Intn(3))
		rt.r.Resource(pattern, sm...).Handle(h, regMW, methods...)
		inner = append(inner, sn...)
		desc = fmt.Sprintf("Resource(%v).Handle", sn)
		depth = 1
	case 4: // Prefix.Prefix.Resource
		a := r.Intn(len(pattern) + 1)
		b := a + r.Intn(len(pattern)-a+1)
		pn, pm := w.names("p", r.Intn(3))
		qn, qm := w.names("q", r.Intn(2))
		sn, sm := w.names("s", r.Intn(3))
		rt.r.Prefix(pattern[:a], pm...).Prefix(pattern[a:b], qm...).Resource(pattern[b:], sm...).Handle(h, regMW, methods...)
		inner = append(append(append(inner, sn...), qn...), pn...)
		desc = fmt.Sprintf("Prefix(%q,%v).Prefix(%q,%v).Resource(%q,%v).Handle", pattern[:a], pn, pattern[a:b], qn, pattern[b:], sn)
		depth = 3
	}
	if depth > w.depthMax {
		w.depthMax = depth
	}
	w.log("%s: %s %q %v reg=%v", rt.name, desc, pattern, methods, regNames)
	w.mirror(rt, pattern, methods, h, inner, nb)
}

func (w *mwWorld) remove(rt *mwRouter) {
	r := w.c.R
	if len(rt.pats) == 0 {
		return
	}
	var ps []string
	for _, p := range c09Patterns {
		if rt.pats[p] != nil {
			ps = append(ps, p)
		}
	}
	p := ref.Pick(r, ps)
	e := rt.pats[p]
	if r.Bool() {
		rt.r.Remove(p)
		delete(rt.pats, p)
		w.log("%s.Remove(%q)", rt.name, p)
		return
	}
	for m := range e.methods {
		rt.r.Remove(p, m)
		delete(e.methods, m)
		w.log("%s.Remove(%q,%s)", rt.name, p, m)
		break
	}
	if len(e.methods) == 0 {
		delete(rt.pats, p)
	}
}

// expectLayers checks one dispatched handler object against the model chain.
func (w *mwWorld) checkChain(rt *mwRouter, label string, o *mon.Obs, runtimeTrace []string, want []string, method, pattern, router string) {
	w.c.Eval()
	fail := func(msg string) {
		w.fail(fmt.Sprintf("%s on router %s: %s", label, router, msg), map[string]any{"expected_chain": strings.Join(want, ">"), "executed_chain": strings.Join(runtimeTrace, ">"), "observed": obsBrief(o)})
	}
	if o.Panicked || o.NilHandler || o.H == nil {
		fail("panic or nil handler")
		return
	}
	if strings.Join(runtimeTrace, ">") != strings.Join(want, ">") {
		fail("middlewares executed in a different order than documented")
		return
	}
	// every layer: made by exactly one factory call with the handler's own (method, pattern, router)
	layers := 0
	for h := o.H; h.Next != nil; h = h.Next {
		layers++
		if h.MWMethod != method || h.MWPattern != pattern || h.MWRouter != router {
			fail(fmt.Sprintf("factory %s was invoked with (%q,%q,%q), expected (%q,%q,%q)", h.Chain[0], h.MWMethod, h.MWPattern, h.MWRouter, method, pattern, router))
			return
		}
	}
	if layers != len(want) {
		fail("number of layers differs")
	}
}

func (w *mwWorld) probeRouter(rt *mwRouter) {
	useChain := reversed(rt.use)
	do := func(q mon.Req) (*mon.Obs, []string) { return mon.DoTrace(rt.r, q) }
	for _, p := range c09Patterns {
		e := rt.pats[p]
		if e == nil {
			continue
		}
		path := c09Witness[p]
		for m, reg := range e.methods {
			o, tr := do(mon.Req{Method: m, Path: path})
			want := append(append([]string{}, useChain...), reversed(reg.inner)...)
			if o.H != nil && o.H.Base != reg.base {
				w.fail("wrong handler", map[string]any{"observed": obsBrief(o)})
				return
			}
			w.checkChain(rt, m+" "+p, o, tr, want, m, p, rt.name)
			w.c.Class("kind_route_method")
			if m == "GET" {
				o, tr := do(mon.Req{Method: "HEAD", Path: path})
				w.checkChain(rt, "HEAD "+p, o, tr, want, "HEAD", p, rt.name)
				w.c.Class("kind_head")
			}
		}
		first := append(append([]string{}, useChain...), reversed(e.first)...)
		o, tr := do(mon.Req{Method: "OPTIONS", Path: path})
		w.checkChain(rt, "OPTIONS "+p, o, tr, first, "OPTIONS", p, rt.name)
		w.c.Class("kind_options")
		o, tr = do(mon.Req{Method: "BOGUS", Path: path})
		w.checkChain(rt, "405 "+p, o, tr, first, "", p, rt.name)
		w.c.Class("kind_405")
		if w.c.Violated() {
			return
		}
	}
	o, tr := do(mon.Req{Method: "GET", Path: "/nowhere"})
	w.checkChain(rt, "404", o, tr, useChain, "", "", rt.name)
	w.c.Class("kind_404")
	o, tr = do(mon.Req{Method: "OPTIONS", Path: "*"})
	w.checkChain(rt, "OPTIONS *", o, tr, useChain, "OPTIONS", "", rt.name)
	w.c.Class("kind_options_star")
	// the absolute-form spelling of the same request (`OPTIONS http://host`) arrives with an empty path
	o, tr = do(mon.Req{Method: "OPTIONS", Path: ""})
	w.checkChain(rt, "OPTIONS with an empty request path", o, tr, useChain, "OPTIONS", "", rt.name)
	if rt.trace {
		o, tr = do(mon.Req{Method: "TRACE", Path: "/m1"})
		w.checkChain(rt, "TRACE", o, tr, useChain, "TRACE", "", rt.name)
		w.c.Class("kind_trace")
	}
}

func runC09(c *Ctx) {
	r := c.R
	w := &mwWorld{c: c, env: mon.NewEnv(), inGroup: map[string]bool{}}
	w.group = w.env.NewGroup()
	w.newRouter("r0", r.Chance(1, 3), r.Chance(1, 3))
	nops := r.Range(10, 30)
	for i := 0; i < nops && !c.Violated(); i++ {
		rt := ref.Pick(r, w.routers)
		switch x := r.Intn(100); {
		case x < 38:
			w.handle(rt)
		case x < 45:
			w.newFacade(rt)
		case x < 62:
			w.use(rt)
		case x < 72:
			w.groupUse()
		case x < 77:
			w.remove(rt)
		case x < 80:
			// Router.Clean / Prefix("").Clean(): every route goes, OPTIONS *, 404 and TRACE keep the middlewares they have
			w.env.TakeMWCalls()
			if r.Bool() {
				rt.r.Clean()
				w.log("%s.Clean()", rt.name)
			} else {
				rt.r.Prefix("").Clean()
				w.log("%s.Prefix(\"\").Clean()", rt.name)
			}
			rt.pats = map[string]*mwEntry{}
			w.checkCalls(rt.name+".Clean()", w.env.TakeMWCalls(), nil, nil)
			w.c.Class("router_clean_between_use_calls")
		case x < 88:
			if len(w.routers) < 4 {
				w.newRouter(fmt.Sprintf("r%d", len(w.routers)), r.Bool(), r.Chance(1, 3))
			}
		case x < 94:
			if !w.inGroup[rt.name] {
				w.groupAdd(rt)
			}
		default:
			w.rejectedGroupAdd()
		}
		w.settle()
		if i%7 == 6 || i == nops-1 {
			for _, rt := range w.routers {
				w.probeRouter(rt)
				if c.Violated() {
					return
				}
			}
			// the group's own not-found handler: only the Group.Use chain, router name ""
			o, tr := mon.DoTrace(w.group, mon.Req{Method: "GET", Path: "/no/router/accepts"})
			if o.H == nil || o.H.Base.Kind != mon.KGroup404 {
				w.fail("group did not answer with its own not-found handler", map[string]any{"observed": obsBrief(o)})
				return
			}
			w.checkChain(nil, "group 404", o, tr, reversed(w.gUse), "", "", "")
			c.Class("kind_group_404")
		}
	}
	if w.useAfterReg && w.depthMax >= 2 {
		c.Nontrivial(strings.Join(w.ops, "\n"))
		c.Class("program_use_after_registration_and_depth2")
	}
	if c.WantSample("program") {
		c.Sample("program", w.ops)
	}
}

func init() {
	Register(&Engine{
		ID:      "C09",
		Anchors: []string{"node.go:applyMiddleware", "node.go:ApplyMiddleware", "router.go:Use", "group.go:Use", "router.go:Prefix", "router.go:Resource"},
		Cases:   func(t string) int { return map[string]int{"quick": 40000, "thorough": 1200000}[t] },
		Run:     runC09,
		Rule: "case = program of 10-30 calls interleaving Router.Use, Group.Use, Group.New/Add, registrations through Handle / Prefix / Prefix.Prefix / Resource / Prefix.Prefix.Resource with 0-3 uniquely named middlewares per level, and Remove; after every 7th call one request per handler kind (each method, HEAD, OPTIONS, 405, 404, OPTIONS *, TRACE, group 404) per pattern and router: executed chain (run-time trace) and per-layer factory arguments compared with the list model, factory invocation counts compared per call; " +
			"non-trivial (distinct by program text) = program with a Use after a registration and facade nesting depth >= 2",
		Floors: func(t string) map[string]int64 {
			if t == "quick" {
				return map[string]int64{"program_use_after_registration_and_depth2": 300, "kind_head": 500, "kind_options": 2000, "kind_405": 2000, "kind_404": 2000, "kind_trace": 300, "kind_group_404": 1000, "kind_options_star": 2000}
			}
			return map[string]int64{"program_use_after_registration_and_depth2": 20000, "kind_head": 30000, "kind_trace": 20000}
		},
		Assume: []string{"middleware names are unique per argument, so chains are compared exactly"},
	})
}
