package eng

import (
	"fmt"
	"sort"
	"strings"

	"github.com/issue9/mux/v9"

	"verifharness/gen"
	"verifharness/mon"
	"verifharness/ref"
)

// Sys couples one router under test with the table model that mirrors the
// calls the engine itself issued.
type Sys struct {
	UseNames []string // middlewares NewSys itself gave to Router.Use (oldest first)
	Env      *mon.Env
	R        *mux.Router[*mon.Hnd]
	ICS      gen.ICSet
	Trace    bool
	Lock     bool
	TraceH   *mon.Hnd
	NotFound *mon.Hnd
	Live     map[string]*Entry
	pcache   map[string]ref.Pattern
	Step     int
	Gen      int
}

// Entry is one live pattern of the model.
type Entry struct {
	Pat  ref.Pattern
	M    map[string]*mon.Hnd // registered method -> base handler
	Opt  *mon.Hnd            // builder-made OPTIONS handler of this generation
	M405 *mon.Hnd
	Born int
}

type Verdict int

const (
	MustAccept Verdict = iota
	MustReject
	Either
)

func (v Verdict) String() string { return [...]string{"must-accept", "must-reject", "either"}[v] }

func NewSys(ics gen.ICSet, trace, lock bool, extra ...mux.Option) *Sys {
	env := mon.NewEnv()
	env.RecordMW = false
	s := &Sys{Env: env, ICS: ics, Trace: trace, Lock: lock, Live: map[string]*Entry{}, pcache: map[string]ref.Pattern{}}
	o := icOptions(ics)
	if trace {
		s.TraceH = env.NewHnd(mon.KTrace, "")
		o = append(o, mux.WithTrace(s.TraceH))
	}
	if lock {
		o = append(o, mux.WithLock(true))
	}
	o = append(o, extra...)
	s.R = env.NewRouter("r", o...)
	if mon.Coin(3) {
		// a router-wide middleware: transparent for every dispatch oracle (they look at the base handler), but with it
		// every registration has a non-empty list to combine with the caller's
		s.R.Use(env.MW("sys-use"))
		s.UseNames = []string{"sys-use"}
	}
	return s
}

// NewSysInGroup is NewSys with the router created by Group.New: the group carries other options
// (another TRACE handler, a URL domain), the router's own options have to win.
func NewSysInGroup(ics gen.ICSet, trace, lock bool, extra ...mux.Option) *Sys {
	env := mon.NewEnv()
	env.RecordMW = false
	s := &Sys{Env: env, ICS: ics, Trace: true, Lock: lock, Live: map[string]*Entry{}, pcache: map[string]ref.Pattern{}}
	groupTrace := env.NewHnd(mon.KTrace, "group-level")
	g := env.NewGroup(mux.WithTrace(groupTrace), mux.WithURLDomain("https://group.example"))
	o := icOptions(ics)
	if trace {
		s.TraceH = env.NewHnd(mon.KTrace, "")
		o = append(o, mux.WithTrace(s.TraceH))
	} else {
		s.TraceH = groupTrace // inherited from the group
	}
	if lock {
		o = append(o, mux.WithLock(true))
	}
	o = append(o, extra...)
	s.R = g.New("r", nil, o...)
	return s
}

func (s *Sys) Parse(p string) (ref.Pattern, ref.SyntaxClass) {
	if pp, ok := s.pcache[p]; ok {
		return pp, ref.SynOK
	}
	pp, cls := ref.Parse(p, s.ICS.Funcs)
	if cls == ref.SynOK {
		s.pcache[p] = pp
	}
	return pp, cls
}

func isAnyMethod(m string) bool {
	for _, x := range gen.AnyMethods {
		if x == m {
			return true
		}
	}
	return false
}

// registrable reports whether m can be registered by hand on this router.
func (s *Sys) registrable(m string) bool {
	return isAnyMethod(m) || (m == "TRACE" && !s.Trace)
}

// Verdict is the model's judgement of a Handle call (property C17/C08).
func (s *Sys) Verdict(pattern string, methods []string) (Verdict, string) {
	pp, cls := s.Parse(pattern)
	if cls != ref.SynOK {
		return MustReject, "malformed pattern: " + cls.String()
	}
	if len(methods) == 0 {
		methods = gen.AnyMethods
	}
	seen := map[string]bool{}
	dupInList := false
	for _, m := range methods {
		if !s.registrable(m) {
			return MustReject, "reserved or unknown method " + m
		}
		if seen[m] {
			dupInList = true
		}
		seen[m] = true
	}
	if e := s.Live[pattern]; e != nil {
		for _, m := range methods {
			if e.M[m] != nil {
				return MustReject, "duplicate pattern+method " + m
			}
		}
	}
	sk := pp.Skeleton()
	twins := 0
	for q, e := range s.Live {
		if q != pattern && e.Pat.Skeleton() == sk {
			twins++
		}
	}
	if twins > 0 {
		if len(s.Live) == 1 {
			return MustReject, "identical up to parameter names to the only other route"
		}
		return Either, "identical up to parameter names to a live route (detection may be incomplete)"
	}
	if dupInList {
		return Either, "method repeated inside one list"
	}
	return MustAccept, ""
}

// Via says through which facade a call is issued.
type Via struct {
	Kind int // 0 Router, 1 Prefix (pattern cut at Cut), 2 Resource, 3 nested Prefix (cut at Cut and Cut2)
	Cut  int
	Cut2 int
}

func (v Via) String() string {
	return [...]string{"router", "prefix", "resource", "prefix.prefix"}[v.Kind]
}

// Handle issues the call on the router (possibly through a facade) and mirrors an accepted call in the model.
func (s *Sys) Handle(pattern string, methods []string, via Via, mws ...*mon.MW) (accepted bool, pv any, h *mon.Hnd) {
	s.Step++
	h = s.Env.NewHnd(mon.KRoute, pattern)
	nb := len(s.Env.Builders)
	var m []muxMW
	for _, x := range mws {
		m = append(m, x)
	}
	am, m := lendMiddlewares("Handle through "+via.String(), m)
	as, methods := lendMethods("Handle through "+via.String(), methods)
	defer func() {
		am.check(m)
		as.check(methods)
	}()
	func() {
		defer func() {
			if p := recover(); p != nil {
				accepted, pv = false, p
			}
		}()
		// a facade gets a middleware list of its own; once the facade object exists the list is the caller's again, and the
		// caller clears it (a reused buffer) before it registers through the object
		fa, fm := lendMiddlewares("creating a "+via.String()+" facade", []muxMW{s.Env.MW("facade-mw")})
		release := func() {
			fa.check(fm)
			clear(fm)
		}
		switch via.Kind {
		case 1:
			px := s.R.Prefix(pattern[:via.Cut], fm...)
			release()
			px.Handle(pattern[via.Cut:], h, m, methods...)
		case 2:
			res := s.R.Resource(pattern, fm...)
			release()
			res.Handle(h, m, methods...)
		case 3:
			px := s.R.Prefix(pattern[:via.Cut], fm...)
			release()
			fa2, fm2 := lendMiddlewares("creating a nested prefix facade", []muxMW{s.Env.MW("facade-mw-2")})
			px2 := px.Prefix(pattern[via.Cut:via.Cut2], fm2...)
			fa2.check(fm2)
			clear(fm2)
			px2.Handle(pattern[via.Cut2:], h, m, methods...)
		default:
			s.R.Handle(pattern, h, m, methods...)
		}
		accepted = true
	}()
	if !accepted {
		return
	}
	s.mirrorHandle(pattern, methods, h, nb)
	return
}

func (s *Sys) mirrorHandle(pattern string, methods []string, h *mon.Hnd, nb int) {
	if len(methods) == 0 {
		methods = gen.AnyMethods
	}
	e := s.Live[pattern]
	if e == nil {
		pp, _ := s.Parse(pattern)
		s.Gen++
		e = &Entry{Pat: pp, M: map[string]*mon.Hnd{}, Born: s.Gen}
		s.Live[pattern] = e
		for _, b := range s.Env.Builders[nb:] {
			if b.Pattern == pattern {
				if b.Kind == mon.KOptions {
					e.Opt = b.H
				} else {
					e.M405 = b.H
				}
			}
		}
	}
	for _, m := range methods {
		if e.M[m] == nil {
			e.M[m] = h
		}
	}
}

// Remove mirrors Router.Remove: only registrable method names have an effect.
func (s *Sys) modelRemove(pattern string, methods []string) (touched bool) {
	e := s.Live[pattern]
	if e == nil {
		return false
	}
	if len(methods) == 0 {
		delete(s.Live, pattern)
		return true
	}
	for _, m := range methods {
		if e.M[m] != nil && s.registrable(m) {
			delete(e.M, m)
			touched = true
		}
	}
	if len(e.M) == 0 {
		delete(s.Live, pattern)
	}
	return touched
}

func (s *Sys) Remove(pattern string, via Via, methods ...string) (touched []string) {
	s.Step++
	if len(methods) > 0 {
		as, lent := lendMethods("Remove through "+via.String(), methods)
		methods = lent
		defer func() { as.check(lent) }()
	}
	switch via.Kind {
	case 1:
		s.R.Prefix(pattern[:via.Cut]).Remove(pattern[via.Cut:], methods...)
	case 2:
		if len(methods) == 0 {
			s.R.Resource(pattern).Clean()
		} else {
			s.R.Resource(pattern).Remove(methods...)
		}
	case 3:
		s.R.Prefix(pattern[:via.Cut]).Prefix(pattern[via.Cut:via.Cut2]).Remove(pattern[via.Cut2:], methods...)
	default:
		s.R.Remove(pattern, methods...)
	}
	if s.modelRemove(pattern, methods) {
		touched = []string{pattern}
	}
	return
}

func (s *Sys) Clean() (touched []string) {
	s.Step++
	s.R.Clean()
	for p := range s.Live {
		touched = append(touched, p)
	}
	s.Live = map[string]*Entry{}
	return
}

// PrefixClean mirrors Prefix.Clean: delete the patterns that start with prefix.
func (s *Sys) PrefixClean(prefix string) (touched []string) {
	s.Step++
	s.R.Prefix(prefix).Clean()
	for p := range s.Live {
		if strings.HasPrefix(p, prefix) {
			touched = append(touched, p)
			delete(s.Live, p)
		}
	}
	return
}

// AllowSet is the model's method set of a live pattern as Allow/Methods()/Routes() must show it.
func (s *Sys) AllowSet(pattern string) []string {
	e := s.Live[pattern]
	if e == nil {
		return nil
	}
	set := []string{"OPTIONS"}
	for m := range e.M {
		set = append(set, m)
	}
	if e.M["GET"] != nil {
		set = append(set, "HEAD")
	}
	if s.Trace {
		set = append(set, "TRACE")
	}
	sort.Strings(set)
	return set
}

// ExpectRoutes is the model's Routes() (without the "*" entry).
func (s *Sys) ExpectRoutes() map[string][]string {
	out := map[string][]string{}
	for p := range s.Live {
		out[p] = s.AllowSet(p)
	}
	return out
}

// CompareRoutes returns "" when Routes() equals the model.
func (s *Sys) CompareRoutes() string {
	got := takeRoutes(s.R)
	want := s.ExpectRoutes()
	for p, ms := range got {
		if p == "*" {
			continue
		}
		w, ok := want[p]
		if !ok {
			return fmt.Sprintf("Routes() lists %q %v which is not live", p, ms)
		}
		if !mon.EqualSets(mon.SortedCopy(ms), w) {
			return fmt.Sprintf("Routes()[%q]=%v, model %v", p, ms, w)
		}
	}
	for p, w := range want {
		if _, ok := got[p]; !ok {
			return fmt.Sprintf("Routes() misses live %q %v", p, w)
		}
	}
	return ""
}

// GlobalMethods: the methods registered on at least one live route.
func (s *Sys) GlobalMethods() map[string]bool {
	g := map[string]bool{}
	for _, e := range s.Live {
		for m := range e.M {
			g[m] = true
		}
	}
	return g
}

func (s *Sys) LivePatterns() []string {
	out := make([]string, 0, len(s.Live))
	for p := range s.Live {
		out = append(out, p)
	}
	sort.Strings(out)
	return out
}

func (s *Sys) LiveParsed() []ref.Pattern {
	ps := s.LivePatterns()
	out := make([]ref.Pattern, len(ps))
	for i, p := range ps {
		out[i] = s.Live[p].Pat
	}
	return out
}

// ExpectHandler says which base handler the model expects for (pattern, method).
func (s *Sys) ExpectHandler(pattern, method string) (h *mon.Hnd, status int) {
	if s.Trace && method == "TRACE" {
		return s.TraceH, 200
	}
	e := s.Live[pattern]
	if e == nil {
		return nil, 404
	}
	switch {
	case e.M[method] != nil:
		return e.M[method], 200
	case method == "HEAD" && e.M["GET"] != nil:
		return e.M["GET"], 200
	case method == "OPTIONS":
		return e.Opt, 200
	}
	return e.M405, 405
}

// ---- simple-value witness machinery (DESIGN C03) ----

var witnessValues = []string{"7", "42", "0", "123", "9", "31"}

// Witness builds the witness path of a pattern: every parameter a short digit string.
func Witness(p ref.Pattern, salt int) (string, map[string]string) {
	var b strings.Builder
	params := map[string]string{}
	k := 0
	for _, t := range p.Toks {
		if t.Kind == ref.KLit {
			b.WriteString(t.Lit)
			continue
		}
		v := witnessValues[(salt+k)%len(witnessValues)]
		k++
		b.WriteString(v)
		if !t.Ignore {
			params[t.Name] = v
		}
	}
	return b.String(), params
}

// kindSeq returns the kinds of the pattern's parameters in order.
func kindSeq(p ref.Pattern) []ref.Kind {
	var ks []ref.Kind
	for _, t := range p.Toks {
		if t.Kind != ref.KLit {
			ks = append(ks, t.Kind)
		}
	}
	return ks
}

// beats reports whether a strictly beats b on a path both definitely match
// (both decompose the path identically: literal runs and digit runs), i.e.
// at the first parameter whose kind differs a has the higher priority
// (interceptor > regexp > named). Literal-vs-parameter differences cannot
// occur between two definite matches because literals carry no digit.
func beats(a, b ref.Pattern) bool {
	ka, kb := kindSeq(a), kindSeq(b)
	ta, tb := paramTexts(a), paramTexts(b)
	for i := 0; i < len(ka) && i < len(kb); i++ {
		if ka[i] != kb[i] {
			return ka[i] < kb[i]
		}
		if ta[i] != tb[i] {
			return false // same kind, different parameter: either may win, and later differences are in different subtrees
		}
	}
	return false
}

func paramTexts(p ref.Pattern) []string {
	var ts []string
	for _, t := range p.Toks {
		if t.Kind != ref.KLit {
			ts = append(ts, t.Text)
		}
	}
	return ts
}

// definite reports whether path is the pattern with every parameter a
// non-empty digit run accepted by its constraint; it returns the captures.
// Literals of the history engines carry no digit, so the decomposition is unique.
func (s *Sys) definite(p ref.Pattern, path string) (map[string]string, bool) {
	caps := map[string]string{}
	rest := path
	for i := range p.Toks {
		t := &p.Toks[i]
		if t.Kind == ref.KLit {
			if !strings.HasPrefix(rest, t.Lit) {
				return nil, false
			}
			rest = rest[len(t.Lit):]
			continue
		}
		n := 0
		for n < len(rest) && rest[n] >= '0' && rest[n] <= '9' {
			n++
		}
		if n == 0 || !t.Accepts(rest[:n], s.ICS.Funcs) {
			return nil, false
		}
		if !t.Ignore {
			caps[t.Name] = rest[:n]
		}
		rest = rest[n:]
	}
	return caps, rest == ""
}

// Classify splits the live patterns into definite and maybe matches of path.
func (s *Sys) Classify(path string) (def, maybe []string) {
	for p, e := range s.Live {
		if _, ok := s.definite(e.Pat, path); ok {
			def = append(def, p)
		} else if e.Pat.Matches(path, s.ICS.Funcs) {
			maybe = append(maybe, p)
		}
	}
	sort.Strings(def)
	sort.Strings(maybe)
	return
}
