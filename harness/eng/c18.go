package eng

import (
	"errors"
	"fmt"
	"html"
	"io"
	"net/http"
	"net/http/httputil"
	"net/url"
	"strings"

	"github.com/issue9/mux/v9"

	"verifharness/gen"
	"verifharness/mon"
	"verifharness/ref"
)

// C18: TRACE handling follows the WithTrace option.

func c18Dispatch(c *Ctx) {
	r := c.R
	withTrace := r.Chance(2, 3)
	ics := gen.ICSets[r.Intn(len(gen.ICSets))]
	s := NewSys(ics, withTrace, false)
	if r.Chance(1, 4) {
		// the same router made by Group.New: a TRACE handler given to New overrides the group's, otherwise the group's is inherited
		s = NewSysInGroup(ics, withTrace, false)
		withTrace = true
		c.Class("router_made_by_group_with_trace_option")
	}
	use := append([]string(nil), s.UseNames...)
	pool := gen.Hostile.Table(r, r.Range(4, 16))
	for i := r.Range(4, 20); i > 0; i-- {
		switch x := r.Intn(10); {
		case x < 6:
			p := ref.Pick(r, pool)
			s.Handle(p, randomMethods(r, s), Via{})
		case x < 8:
			name := fmt.Sprintf("u%d", len(use))
			s.R.Use(s.Env.MW(name))
			use = append(use, name)
		default:
			if live := s.LivePatterns(); len(live) > 0 {
				s.Remove(ref.Pick(r, live), Via{})
			}
		}
	}
	// manual registration of TRACE
	p := ref.Pick(r, pool)
	before := s.CompareRoutes()
	verdict, _ := s.Verdict(p, []string{"TRACE"})
	ok, _, _ := s.Handle(p, []string{"TRACE"}, Via{})
	c.Eval()
	if withTrace {
		c.Class("with_trace")
		if ok {
			c.Violate("TRACE registered by hand although a TRACE handler is configured", map[string]any{"pattern": p})
			return
		}
		if msg := s.CompareRoutes(); msg != before {
			c.Violate("rejected Handle(TRACE) changed Routes(): "+msg, nil)
			return
		}
	} else {
		c.Class("without_trace")
		wasLive := false
		// without the option TRACE is an ordinary method (unless it was already registered for p)
		if !ok {
			if e := s.Live[p]; e != nil && e.M["TRACE"] != nil {
				wasLive = true
			}
			if !wasLive && verdict == MustAccept {
				c.Violate("TRACE could not be registered although no TRACE handler is configured", map[string]any{"pattern": p, "live": s.ExpectRoutes()})
				return
			}
		}
	}
	livePats := s.LiveParsed()
	for k := 0; k < 30 && !c.Violated(); k++ {
		path := hostilePath(r, livePats)
		if len(path) > 2000 {
			path = path[:2000]
		}
		o, tr := mon.DoTrace(s.R, mon.Req{Method: "TRACE", Path: path})
		c.Eval()
		det := map[string]any{"with_trace": withTrace, "path": short(path), "observed": obsBrief(o), "executed_chain": tr, "live": s.LivePatterns()}
		if o.Panicked || o.NilHandler {
			c.Violate("TRACE request panicked or nil handler", det)
			return
		}
		if withTrace {
			if o.H.Base != s.TraceH {
				c.Violate("TRACE request not answered by the configured TRACE handler", det)
			} else if strings.Join(tr, ">") != strings.Join(reversed(use), ">") {
				c.Violate(fmt.Sprintf("TRACE handler ran chain %v, expected only the Use middlewares %v", tr, reversed(use)), det)
			} else if len(o.Params) != 0 {
				c.Violate("TRACE handler sees route parameters", det)
			}
			c.Class("trace_any_path")
			c.Nontrivial("t|" + path)
			continue
		}
		// ordinary method: own handler, 405 or 404 per table model
		if path == "" || path == "*" {
			continue
		}
		if o.NodeNil {
			if o.Status != 404 {
				c.Violate("no route but status is not 404", det)
			}
			c.Class("trace_ordinary_404")
			continue
		}
		want, wantStatus := s.ExpectHandler(o.NodePattern, "TRACE")
		if want == nil || o.H.Base != want || o.Status != wantStatus {
			c.Violate(fmt.Sprintf("TRACE as an ordinary method on %q: handler %v status %d, model expects %v status %d", o.NodePattern, o.H, o.Status, want, wantStatus), det)
		}
		if wantStatus == 200 {
			c.Class("trace_ordinary_registered")
		} else {
			c.Class("trace_ordinary_405")
		}
		c.Nontrivial("o|" + path)
	}
}

type traceReqSpec struct {
	Method  string
	Path    string
	Query   string
	Host    string
	Header  map[string]string
	Body    string
	Framing string // "", "unknown-length" (ContentLength -1), "chunked", "zero-length-declared"
}

func (t traceReqSpec) build() *http.Request {
	r := &http.Request{Method: t.Method, URL: &url.URL{Path: t.Path, RawQuery: t.Query}, Proto: "HTTP/1.1", ProtoMajor: 1, ProtoMinor: 1,
		Header: http.Header{}, Host: t.Host, Body: http.NoBody}
	for k, v := range t.Header {
		r.Header.Set(k, v)
	}
	if t.Body != "" {
		r.Body = io.NopCloser(strings.NewReader(t.Body))
		r.ContentLength = int64(len(t.Body))
		switch t.Framing {
		case "unknown-length":
			r.ContentLength = -1
		case "chunked":
			r.ContentLength = -1
			r.TransferEncoding = []string{"chunked"}
		}
	}
	return r
}

// goneRW is the writer of a client that went away: it takes max bytes, then every Write fails.
type goneRW struct {
	h   http.Header
	max int
}

func (w *goneRW) Header() http.Header { return w.h }
func (w *goneRW) WriteHeader(int)     {}
func (w *goneRW) Write(b []byte) (int, error) {
	n := len(b)
	if n > w.max {
		n = w.max
	}
	w.max -= n
	if n < len(b) {
		return n, errors.New("write: broken pipe")
	}
	return n, nil
}

var traceChunks = []string{"nul\x00byte", "\x00", "bad\xffutf8", "\u2028", "<script>", "a&b", `"q"`, "'s'", ">", "plain", "<b>x</b>", "é", "&amp;", "line\r\nbreak"}

func c18Helper(c *Ctx) {
	r := c.R
	for k := 0; k < 40 && !c.Violated(); k++ {
		spec := traceReqSpec{Method: ref.Pick(r, []string{"TRACE", "GET", "POST"}), Path: "/" + ref.Pick(r, traceChunks) + "/" + ref.Pick(r, []string{"x", "<y>", "a&b"}),
			Query: ref.Pick(r, []string{"", "a=1&b=<2>", "q=\"x\""}), Host: ref.Pick(r, []string{"example.com", "a<b>.com", ""}), Header: map[string]string{}}
		for n := r.Intn(4); n > 0; n-- {
			spec.Header[ref.Pick(r, []string{"X-A", "X-Html", "Accept", "User-Agent", "Cookie"})] = ref.Pick(r, traceChunks) + ref.Pick(r, traceChunks)
		}
		if r.Bool() {
			spec.Body = ref.Pick(r, traceChunks) + ref.Pick(r, traceChunks) + strings.Repeat("z", r.Intn(50))
			if r.Chance(1, 5) {
				// scale: a body of 2-40 KB in which metacharacters sit at every offset class (random filler lengths between them)
				var b strings.Builder
				for n := r.Range(2000, 40000); b.Len() < n; {
					b.WriteString(strings.Repeat("z", r.Intn(7)))
					b.WriteString(ref.Pick(r, []string{"<", ">", "&", "'", "\"", "<<&&>>", "&amp;", "é"}))
				}
				spec.Body = b.String()
				c.Class("helper_body_of_several_kilobytes")
			}
			spec.Framing = ref.Pick(r, []string{"", "", "unknown-length", "chunked"})
			if spec.Framing != "" {
				c.Class("helper_body_of_unknown_length")
			}
		}
		withBody := r.Bool()
		if r.Chance(1, 3) {
			// the client before this one went away in the middle of its answer: its writer takes a few bytes (or none) and
			// fails from then on. Nothing of that answer belongs into the next one.
			gone := &goneRW{h: http.Header{}, max: r.Intn(3) * 10}
			prev := traceReqSpec{Method: "TRACE", Path: "/previous-client/" + ref.Pick(r, traceChunks), Host: "previous.example", Header: map[string]string{"X-Previous": "secret-of-the-previous-client"},
				Body: strings.Repeat("previous ", r.Intn(20))}
			func() {
				defer func() { recover() }()
				mux.Trace(gone, prev.build(), r.Bool())
			}()
			c.Class("helper_after_a_failed_write")
		}
		rw := mon.NewRW()
		var pan any
		func() {
			defer func() { pan = recover() }()
			mux.Trace(rw, spec.build(), withBody)
		}()
		rw.Finish()
		c.Eval()
		// the response belongs to its recipient now, who edits every header value in place (a logging wrapper that truncates
		// what it prints, say): later TRACE answers must be unaffected
		for _, vs := range rw.Header() {
			for i := range vs {
				vs[i] = "edited-in-place"
			}
		}
		dump, err := httputil.DumpRequest(spec.build(), withBody)
		want := html.EscapeString(string(dump))
		det := map[string]any{"request": spec, "with_body": withBody, "status": rw.Status, "headers_sent": rw.Snap, "body": short(rw.Body.String()), "expected_body": short(want)}
		switch {
		case pan != nil:
			c.Violate(fmt.Sprintf("Trace helper panicked: %v", pan), det)
		case err != nil:
			continue
		case rw.Status != 200:
			c.Violate(fmt.Sprintf("Trace helper status %d", rw.Status), det)
		case rw.Snap.Get("Content-Type") != "message/http":
			c.Violate(fmt.Sprintf("Content-Type actually sent is %q, expected message/http", rw.Snap.Get("Content-Type")), det)
		case rw.Body.String() != want:
			c.Violate("body is not the HTML-escaped dump of the request", det)
		case strings.ContainsAny(strings.ReplaceAll(rw.Body.String(), "&", ""), "<>\"'") && false:
		}
		if withBody && spec.Body != "" {
			c.Class("helper_with_body")
		} else {
			c.Class("helper_without_body")
		}
		if strings.ContainsAny(string(dump), "<>&\"'") {
			c.Class("helper_html_metacharacters")
			c.Nontrivial(fmt.Sprintf("h|%v|%v", spec, withBody))
		}
	}
	// end to end: the helper installed as the TRACE handler of a router
	env := mon.NewEnv()
	th := env.NewHnd(mon.KTrace, "")
	th.Run = func(w http.ResponseWriter, rq *http.Request, _ *mon.Hnd) { mux.Trace(w, rq, true) }
	rt := env.NewRouter("r", mux.WithTrace(th))
	o := mon.Do(rt, mon.Req{Method: "TRACE", Path: "/any/<where>", Header: map[string]string{"X-A": "<1>"}})
	c.Eval()
	if o.Status != 200 || o.Header.Get("Content-Type") != "message/http" || !strings.Contains(string(o.Body), "&lt;1&gt;") {
		c.Violate("router with the bundled Trace helper: wrong status, Content-Type not sent, or body not escaped", map[string]any{"status": o.Status, "headers_sent": o.Header, "body": string(o.Body)})
	}
}

func runC18(c *Ctx) {
	switch c.Case % 3 {
	case 0:
		runHistory(c, "C18")
		c.Class("history_case")
	case 1:
		c18Dispatch(c)
	default:
		c18Helper(c)
	}
}

func c18Directed() []Directed {
	return []Directed{
		directedHist("trace-in-options-star-on-fresh-router", "C18", noneIC, true, hOps(Rm("/nothing"))),
		directedHist("trace-in-every-allow", "C18", noneIC, true, hOps(H("/a", "GET"), H("/a/b", "POST"), Rm("/a", "GET"), H("/a", "PUT"))),
		{ID: "helper-content-type-is-sent", Run: func(c *Ctx) {
			rw := mon.NewRW()
			mux.Trace(rw, traceReqSpec{Method: "TRACE", Path: "/x", Host: "h"}.build(), false)
			rw.Finish()
			c.Eval()
			if rw.Snap.Get("Content-Type") != "message/http" {
				c.Violate(fmt.Sprintf("Content-Type actually sent is %q (set after WriteHeader?)", rw.Snap.Get("Content-Type")), nil)
			}
		}},
	}
}

func init() {
	Register(&Engine{
		ID:       "C18",
		Anchors:  []string{"trace.go:Trace", "tree.go:Handler", "options.go:WithTrace", "method.go:buildMethods"},
		Cases:    func(t string) int { return map[string]int{"quick": 20000, "thorough": 1000000}[t] },
		Run:      runC18,
		Directed: c18Directed,
		Rule: "three monitors by case index: (0) Handle/Remove/Clean history (2/3 with WithTrace) with the Allow monitor of C04 after every step (TRACE in every Allow set, OPTIONS * included); (1) router reached by Handle/Use/Remove steps, manual Handle(TRACE), then 30 TRACE requests on hostile paths: configured handler with exactly the Use chain, or ordinary method per table model without the option; (2) 40 requests with HTML metacharacters in path/query/host/headers/body through the bundled Trace helper on the wire-faithful recorder, compared with the escaped dump of an oracle-rebuilt request; " +
			"non-trivial (distinct) = TRACE request by path, or helper request containing HTML metacharacters",
		Floors: func(t string) map[string]int64 {
			if t == "quick" {
				return map[string]int64{"trace_any_path": 2000, "trace_ordinary_registered": 20, "trace_ordinary_405": 50, "helper_html_metacharacters": 3000, "helper_with_body": 1000, "history_case": 100, "allow_views_checked": 5000}
			}
			return map[string]int64{"trace_any_path": 150000, "helper_html_metacharacters": 250000}
		},
		Assume: []string{"httputil.DumpRequest of an independently rebuilt request is the reference dump"},
	})
}
