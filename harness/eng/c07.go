package eng

import (
	"encoding/json"
	"fmt"
	"net/http"
	"os"
	"os/exec"
	"sort"
	"strings"
	"sync"
	"sync/atomic"

	"github.com/issue9/mux/v9"
	"github.com/issue9/mux/v9/types"

	"verifharness/gen"
	"verifharness/mon"
	"verifharness/ref"
)

// C07: instances are isolated; a quiescent router serves concurrently.
// Three monitors (case index mod 3): parallel construction of independent
// instances, concurrent serving of a quiescent router, history independence
// of a brand-new router (fresh subprocess per script order).

// Fork gives a goroutine its own collector; Join merges it back (after the goroutine ended).
func (c *Ctx) Fork(seed uint64) *Ctx {
	return &Ctx{R: ref.NewR(seed), Prop: c.Prop, Tier: c.Tier, Seed: c.Seed, Case: c.Case, res: NewResult(c.Prop)}
}

func (c *Ctx) Join(k *Ctx) {
	c.res.Evaluations += k.res.Evaluations
	for n, v := range k.res.Classes {
		c.res.Classes[n] += v
	}
	for h := range k.res.distinct {
		c.res.distinct[h] = struct{}{}
	}
	for _, v := range k.res.Violations {
		c.violated = true
		c.res.Violations = append(c.res.Violations, v)
	}
}

// ---- monitor 1: parallel construction ----

func c07Parallel(c *Ctx) {
	r := c.R
	k := r.Range(3, 8)
	var wg sync.WaitGroup
	kids := make([]*Ctx, k)
	combos := atomic.Int64{}
	for g := 0; g < k; g++ {
		kids[g] = c.Fork(r.U64())
		wg.Add(1)
		go func(kc *Ctx, g int) {
			defer wg.Done()
			defer func() {
				if p := recover(); p != nil {
					kc.Violate(fmt.Sprintf("goroutine building its own instance panicked: %v", p), nil)
				}
			}()
			switch g % 3 {
			case 0, 1:
				// an own router: history with the C04 monitor (Allow sets come from the shared memo)
				h := newHist(kc, "C04")
				for i := 0; i < 25 && !kc.Violated(); i++ {
					kind, _, _ := h.step()
					if kind == "stop" {
						break
					}
					h.checkAllow()
					if i%5 == 4 {
						if msg := h.s.CompareRoutes(); msg != "" {
							h.violate(msg, nil)
						}
					}
				}
				combos.Add(int64(len(h.ops)))
			case 2:
				// an own Hosts matcher and an own Group
				lr := kc.R
				hs := mux.NewHosts(false)
				doms := []string{"a.example.com", "b.example.com", "c.example.com", "d.example.com", "e.example.com", "f.example.com", "{sub}.example.com", "{n:[0-9]+}.x.org"}
				live := map[string]bool{}
				env := mon.NewEnv()
				grp := env.NewGroup()
				grp.Add(hs, env.NewRouter(fmt.Sprintf("g%d", g)))
				for i := 0; i < 40; i++ {
					d := ref.Pick(lr, doms)
					if live[d] {
						hs.Delete(d)
						delete(live, d)
					} else {
						hs.Add(d)
						live[d] = true
					}
					for _, host := range []string{"a.example.com", "zz.example.com", "7.x.org"} {
						ctx := types.NewContext()
						got := hs.Match(&http.Request{Host: host}, ctx)
						want := live[host] || (host == "zz.example.com" && live["{sub}.example.com"]) || (host == "7.x.org" && live["{n:[0-9]+}.x.org"]) ||
							(host == "a.example.com" && live["{sub}.example.com"])
						kc.Eval()
						if got != want {
							kc.Violate(fmt.Sprintf("own Hosts matcher: Match(%q)=%v, expected %v with domains %v", host, got, want, live), nil)
						}
						ctx.Destroy()
					}
				}
				combos.Add(40)
			}
		}(kids[g], g)
	}
	wg.Wait()
	for _, kc := range kids {
		c.Join(kc)
	}
	c.Class("parallel_construction_case")
	c.ClassN("parallel_instances", k)
	c.Nontrivial(fmt.Sprintf("par|%d|%d", c.Case, combos.Load()))
}

// ---- monitor 2: quiescent router ----

func c07Quiescent(c *Ctx) {
	r := c.R
	ics := gen.ICSets[1]
	lock := r.Bool()
	var recovered atomic.Int64
	// The router is built twice from one seed: the twin answers the sequential pre-pass, the router under test serves
	// its very first request under concurrent load (state that is built lazily on the serving path would be built
	// there). The last mutations are removals (no registration afterwards).
	trace := r.Chance(1, 3)
	buildSeed := r.U64()
	build := func() *Sys {
		br := ref.NewR(buildSeed)
		s := NewSys(ics, trace, lock, mux.WithRecovery(func(w http.ResponseWriter, v any) {
			recovered.Add(1)
			w.WriteHeader(500)
		}))
		pl := gen.SimpleFor(ics)
		pool := pl.Table(br, br.Range(8, 20))
		for _, p := range pool {
			ok, _, h := s.Handle(p, []string{"GET", "POST"}, Via{})
			if ok {
				h.Run = func(w http.ResponseWriter, rq *http.Request, b *mon.Hnd) {
					if strings.HasSuffix(rq.URL.Path, "13") || strings.Contains(rq.URL.Path, "13/") {
						panic("boom " + rq.URL.Path)
					}
					w.Write([]byte("ok"))
				}
			}
		}
		if br.Bool() {
			for k := br.Range(1, 3); k > 0; k-- {
				if lp := s.LivePatterns(); len(lp) > 3 {
					s.Remove(ref.Pick(br, lp), Via{})
				}
			}
		}
		return s
	}
	s, twin := build(), build()
	live := s.LivePatterns()
	// sequential pre-pass on the twin: which pattern answers the witness shape of each live pattern
	answer := map[string]string{}
	for _, p := range live {
		w, _ := Witness(twin.Live[p].Pat, 1)
		o := mon.Do(twin.R, mon.Req{Method: "GET", Path: w})
		if !o.NodeNil {
			answer[p] = o.NodePattern
		}
	}
	workers := 16
	var wg sync.WaitGroup
	var seen sync.Map // Route pointers
	var total, reused atomic.Int64
	kids := make([]*Ctx, workers)
	for g := 0; g < workers; g++ {
		kids[g] = c.Fork(r.U64())
		wg.Add(1)
		go func(kc *Ctx, g int) {
			defer wg.Done()
			lr := kc.R
			for i := 0; i < 120; i++ {
				p := ref.Pick(lr, live)
				pat := s.Live[p].Pat
				// unique digit values per (goroutine, counter, position)
				var b strings.Builder
				k := 0
				for _, t := range pat.Toks {
					if t.Kind == ref.KLit {
						b.WriteString(t.Lit)
					} else {
						k++
						v := fmt.Sprintf("%d%03d%d", g+1, i, k)
						if lr.Chance(1, 12) {
							v += "13" // this request panics inside its handler (recovery configured)
						}
						b.WriteString(v)
					}
				}
				path := b.String()
				m := ref.Pick(lr, []string{"GET", "GET", "POST", "HEAD", "OPTIONS", "PUT"})
				o := mon.Do(s.R, mon.Req{Method: m, Path: path})
				kc.Eval()
				total.Add(1)
				if o.Route != nil {
					if _, dup := seen.LoadOrStore(o.Route, true); dup {
						reused.Add(1)
					}
				}
				bad := func(msg string) {
					kc.Violate("quiescent router under concurrent load: "+msg, map[string]any{"method": m, "path": path, "observed": obsBrief(o), "lock": lock})
				}
				if o.Panicked {
					bad(fmt.Sprintf("panic escaped: %v", o.Panic))
					continue
				}
				if o.NilHandler {
					bad("nil handler")
					continue
				}
				Q, ok := answer[p]
				if !ok {
					continue
				}
				if s.Trace && m == "TRACE" {
					continue
				}
				if o.NodeNil || o.NodePattern != Q {
					bad(fmt.Sprintf("answered by %q, sequentially by %q", o.NodePattern, Q))
					continue
				}
				caps, isDef := s.definite(s.Live[Q].Pat, path)
				if isDef && fmtParams(caps) != fmtParams(o.Params) {
					bad(fmt.Sprintf("request saw parameters %s, its own path implies %s", fmtParams(o.Params), fmtParams(caps)))
					continue
				}
				want, _ := s.ExpectHandler(Q, m)
				if want == nil || o.H.Base != want {
					bad("foreign handler")
				}
			}
		}(kids[g], g)
	}
	wg.Wait()
	for _, kc := range kids {
		c.Join(kc)
	}
	c.Class("quiescent_case")
	c.ClassN("quiescent_requests", int(total.Load()))
	c.ClassN("quiescent_context_reuse_observed", int(reused.Load()))
	c.ClassN("quiescent_recovered_panics", int(recovered.Load()))
	if reused.Load() > 0 {
		c.Nontrivial(fmt.Sprintf("q|%d|%d", c.Case, reused.Load()))
	}
	c07QuiescentGroup(c)
	// after the load: a sequential request still sees clean parameters
	o := mon.Do(s.R, mon.Req{Method: "GET", Path: "/definitely/not/registered/7"})
	if !o.NodeNil || len(o.Params) != 0 {
		if o.NodeNil {
			c.Violate("404 after concurrent load carries parameters", obsBrief(o))
		}
	}
}

// c07QuiescentGroup: a quiescent Group (Hosts matcher with wildcard domains, path-version matcher) served by
// 16 goroutines with mixed-case Host headers; every request carries a sub-domain and an id unique to it and
// must see exactly those. Afterwards the context pool must hand out distinct contexts.
func c07QuiescentGroup(c *Ctx) {
	env := mon.NewEnv()
	env.RecordMW = false
	g := env.NewGroup()
	hs := mux.NewHosts(false, "{sub}.example.com", "{n:\\d+}.x.org", "static.example.org")
	rh := g.New("hosts", hs)
	hh := env.NewHnd(mon.KRoute, "/q/{id}")
	rh.Handle("/q/{id}", hh, nil, "GET")
	rp := g.New("path", mux.NewPathVersion("ver", "v1", "v2"))
	hp := env.NewHnd(mon.KRoute, "/p/{id}")
	rp.Handle("/p/{id}", hp, nil, "GET")
	var wg sync.WaitGroup
	kids := make([]*Ctx, 16)
	for gi := range kids {
		kids[gi] = c.Fork(c.R.U64())
		wg.Add(1)
		go func(kc *Ctx, gi int) {
			defer wg.Done()
			lr := kc.R
			for i := 0; i < 60; i++ {
				id := fmt.Sprintf("%d%03d", gi+1, i)
				var q mon.Req
				want := map[string]string{"id": id}
				var wantH *mon.Hnd
				switch lr.Intn(3) {
				case 0:
					sub := fmt.Sprintf("Tenant-%d-%d", gi, i)
					q = mon.Req{Method: "GET", Path: "/q/" + id, Host: randCase(lr, sub+".example.com") + ref.Pick(lr, []string{"", ":8080"})}
					want["sub"] = strings.ToLower(sub)
					wantH = hh
				case 1:
					q = mon.Req{Method: "GET", Path: "/q/" + id, Host: id + ".X.org"}
					want["n"] = id
					wantH = hh
				default:
					v := ref.Pick(lr, []string{"v1", "v2"})
					q = mon.Req{Method: "GET", Path: "/" + v + "/p/" + id, Host: "Other.Example.net"}
					want["ver"] = "/" + v
					wantH = hp
				}
				o := mon.Do(g, q)
				kc.Eval()
				if o.Panicked || o.H == nil || o.H.Base != wantH || fmtParams(o.Params) != fmtParams(want) {
					kc.Violate("quiescent group under concurrent load: request did not see its own router/handler/parameters",
						map[string]any{"request": q.String(), "expected_params": fmtParams(want), "observed": obsBrief(o)})
					return
				}
			}
		}(kids[gi], gi)
	}
	wg.Wait()
	for _, kc := range kids {
		c.Join(kc)
	}
	c.ClassN("quiescent_group_requests", 16*60)
	a, b := types.NewContext(), types.NewContext()
	if a == b {
		c.Violate("after serving through a Group the context pool hands out the same context twice (returned to the pool twice)", nil)
	}
	a.Destroy()
	b.Destroy()
}

// ---- monitor 3: history independence ----

// Transcript probes a brand-new router; it contains no handler ids.
func Transcript(trace bool) []string {
	env := mon.NewEnv()
	var o []mux.Option
	if trace {
		o = append(o, mux.WithTrace(env.NewHnd(mon.KTrace, "")))
	}
	r := env.NewRouter("fresh", o...)
	var t []string
	add := func(label string, ob *mon.Obs) {
		t = append(t, fmt.Sprintf("%s: status=%d kind=%s pattern=%q allow=%q nodeAllow=%q methods=%v params=%s panic=%v nil=%v", label, ob.Status, kindOf(ob), ob.NodePattern,
			ob.Header.Get("Allow"), ob.NodeAllow, ob.NodeMethods, fmtParams(ob.Params), ob.Panic, ob.NilHandler))
	}
	routes := func(label string) {
		rt := takeRoutes(r)
		ks := make([]string, 0, len(rt))
		for k := range rt {
			ks = append(ks, k)
		}
		sort.Strings(ks)
		var b strings.Builder
		for _, k := range ks {
			fmt.Fprintf(&b, "%s=%v;", k, rt[k])
		}
		t = append(t, label+": routes "+b.String())
	}
	add("OPTIONS * (new)", mon.Do(r, mon.Req{Method: "OPTIONS", Path: "*"}))
	add("OPTIONS \"\" (new)", mon.Do(r, mon.Req{Method: "OPTIONS", Path: ""}))
	add("GET /nothing (new)", mon.Do(r, mon.Req{Method: "GET", Path: "/nothing"}))
	add("TRACE /x (new)", mon.Do(r, mon.Req{Method: "TRACE", Path: "/x"}))
	routes("new")
	r.Handle("/t/{id}", env.NewHnd(mon.KRoute, "/t/{id}"), nil, "GET", "PUT")
	add("OPTIONS /t/1", mon.Do(r, mon.Req{Method: "OPTIONS", Path: "/t/1"}))
	add("POST /t/1", mon.Do(r, mon.Req{Method: "POST", Path: "/t/1"}))
	add("HEAD /t/1", mon.Do(r, mon.Req{Method: "HEAD", Path: "/t/1"}))
	add("GET /t/1", mon.Do(r, mon.Req{Method: "GET", Path: "/t/1"}))
	add("OPTIONS * (1 route)", mon.Do(r, mon.Req{Method: "OPTIONS", Path: "*"}))
	routes("1 route")
	r.Handle("/t/{id}/x", env.NewHnd(mon.KRoute, "/t/{id}/x"), nil, "DELETE", "PATCH", "CONNECT")
	add("OPTIONS /t/1/x", mon.Do(r, mon.Req{Method: "OPTIONS", Path: "/t/1/x"}))
	add("OPTIONS * (2 routes)", mon.Do(r, mon.Req{Method: "OPTIONS", Path: "*"}))
	r.Remove("/t/{id}", "GET")
	add("OPTIONS /t/1 after Remove GET", mon.Do(r, mon.Req{Method: "OPTIONS", Path: "/t/1"}))
	add("OPTIONS * after Remove GET", mon.Do(r, mon.Req{Method: "OPTIONS", Path: "*"}))
	u, err := r.URL(true, "/t/{id}", map[string]string{"id": "5"})
	t = append(t, fmt.Sprintf("URL: %q %v", u, err != nil))
	r.Clean()
	add("OPTIONS * after Clean", mon.Do(r, mon.Req{Method: "OPTIONS", Path: "*"}))
	routes("after Clean")
	// parameter kinds: the same names, rules and literals other instances may have used in another spelling
	r.Handle("/rx/{id:\\d+}/x", env.NewHnd(mon.KRoute, "/rx/{id:\\d+}/x"), nil, "GET")
	r.Handle("/ig/{-id:\\d+}/x", env.NewHnd(mon.KRoute, "/ig/{-id:\\d+}/x"), nil, "GET")
	r.Handle("/nm/{name}/{-skip}/e", env.NewHnd(mon.KRoute, "/nm/{name}/{-skip}/e"), nil, "GET")
	r.Handle("/w/{w:[a-z]+}.html", env.NewHnd(mon.KRoute, "/w/{w:[a-z]+}.html"), nil, "GET")
	add("GET /rx/5/x", mon.Do(r, mon.Req{Method: "GET", Path: "/rx/5/x"}))
	add("GET /rx/a/x", mon.Do(r, mon.Req{Method: "GET", Path: "/rx/a/x"}))
	add("GET /ig/5/x", mon.Do(r, mon.Req{Method: "GET", Path: "/ig/5/x"}))
	add("GET /nm/a/b/e", mon.Do(r, mon.Req{Method: "GET", Path: "/nm/a/b/e"}))
	add("GET /w/abc.html", mon.Do(r, mon.Req{Method: "GET", Path: "/w/abc.html"}))
	add("GET /w/ABC.html", mon.Do(r, mon.Req{Method: "GET", Path: "/w/ABC.html"}))
	hs := mux.NewHosts(false, "{sub:[a-z]+}.example.com", "{-n:\\d+}.x.org", "static.example.org")
	for _, h := range []string{"abc.example.com", "ABC.example.com:80", "7.x.org", "x.x.org", "static.example.org", "other"} {
		ok, ps, pan := matchHost(hs, h)
		t = append(t, fmt.Sprintf("Hosts.Match(%q): %v %s %v", h, ok, fmtParams(ps), pan))
	}
	return t
}

func kindOf(o *mon.Obs) string {
	if o.H == nil {
		return "nil"
	}
	return o.H.Base.Kind
}

// Activity scripts: unrelated work on other routers / hosts / groups.
var Scripts = map[string]func(r *ref.R){
	"none": func(*ref.R) {},
	"router-all-methods": func(r *ref.R) {
		env := mon.NewEnv()
		rt := env.NewRouter("other")
		for i, ms := range [][]string{{"GET"}, {"POST", "PUT"}, {"DELETE", "PATCH", "CONNECT", "TRACE"}, nil, {"GET", "DELETE"}} {
			rt.Handle(fmt.Sprintf("/o/%d/{id}", i), env.NewHnd(mon.KRoute, ""), nil, ms...)
		}
		mon.Do(rt, mon.Req{Method: "OPTIONS", Path: "*"})
		mon.Do(rt, mon.Req{Method: "OPTIONS", Path: "/o/0/1"})
		rt.Remove("/o/1/{id}", "PUT")
		rt.Remove("/o/2/{id}")
		mon.Do(rt, mon.Req{Method: "BOGUS", Path: "/o/3/1"})
		rt.Clean()
	},
	"router-trace": func(r *ref.R) {
		env := mon.NewEnv()
		rt := env.NewRouter("other", mux.WithTrace(env.NewHnd(mon.KTrace, "")), mux.WithLock(true))
		for i := 0; i < 12; i++ {
			ms := append([]string(nil), gen.AnyMethods...)
			ref.Shuffle(r, ms)
			rt.Handle(fmt.Sprintf("/q%d", i), env.NewHnd(mon.KRoute, ""), nil, ms[:r.Range(1, 6)]...)
			mon.Do(rt, mon.Req{Method: "OPTIONS", Path: fmt.Sprintf("/q%d", i)})
		}
		mon.Do(rt, mon.Req{Method: "OPTIONS", Path: "*"})
	},
	"hosts": func(r *ref.R) {
		hs := mux.NewHosts(true, "a.com", "{sub}.b.com")
		hs.Add("c.com", "d.com", "e.com", "f.com")
		hs.Delete("a.com")
		ctx := types.NewContext()
		hs.Match(&http.Request{Host: "x.b.com"}, ctx)
		ctx.Destroy()
	},
	"group": func(r *ref.R) {
		env := mon.NewEnv()
		g := env.NewGroup()
		a := g.New("a", mux.NewPathVersion("v", "v1"))
		b := g.New("b", nil)
		a.Handle("/x", env.NewHnd(mon.KRoute, ""), nil, "GET", "POST", "PATCH")
		b.Handle("/{p}", env.NewHnd(mon.KRoute, ""), nil)
		g.Use(env.MW("m"))
		mon.Do(g, mon.Req{Method: "PATCH", Path: "/v1/x"})
		mon.Do(g, mon.Req{Method: "OPTIONS", Path: "/y"})
		g.Remove("a")
	},
	"other-spellings": func(r *ref.R) {
		env := mon.NewEnv()
		rt := env.NewRouter("other")
		// the '-' form where the transcript captures and vice versa; the same rules with other names
		rt.Handle("/rx/{-id:\\d+}/x", env.NewHnd(mon.KRoute, ""), nil, "GET")
		rt.Handle("/ig/{id:\\d+}/x", env.NewHnd(mon.KRoute, ""), nil, "GET")
		rt.Handle("/nm/{-name}/{skip}/e", env.NewHnd(mon.KRoute, ""), nil, "GET")
		rt.Handle("/w/{-w:[a-z]+}.html", env.NewHnd(mon.KRoute, ""), nil, "GET")
		for _, p := range []string{"/rx/5/x", "/ig/5/x", "/nm/a/b/e", "/w/abc.html"} {
			mon.Do(rt, mon.Req{Method: "GET", Path: p})
		}
		hs := mux.NewHosts(false, "{-sub:[a-z]+}.example.com", "{n:\\d+}.x.org")
		matchHost(hs, "abc.example.com")
		matchHost(hs, "7.x.org")
	},
	"panics-with-recovery": func(r *ref.R) {
		env := mon.NewEnv()
		rt := env.NewRouter("other", mux.WithRecovery(func(http.ResponseWriter, any) {}))
		h := env.NewHnd(mon.KRoute, "")
		h.Panic = &mon.PanicSpec{Value: "x"}
		rt.Handle("/boom/{a}/{b}", h, nil, "GET")
		for i := 0; i < 5; i++ {
			mon.Do(rt, mon.Req{Method: "GET", Path: "/boom/1/2"})
		}
	},
}

var ScriptNames = []string{"none", "router-all-methods", "router-trace", "hosts", "group", "panics-with-recovery", "other-spellings"}

// TranscriptMain is the body of the `transcript` subprocess: T0 on a fresh
// process, then T_k after each script; all must be equal.
func TranscriptMain(scripts []string, trace bool, seed uint64, first bool) int {
	r := ref.NewR(seed)
	out := map[string]any{}
	if first { // unrelated activity comes first; the caller compares the transcript with one from an untouched process
		for _, name := range scripts {
			if f := Scripts[name]; f != nil {
				f(r)
			}
		}
		scripts = nil
	}
	t0 := Transcript(trace)
	out["t0"] = t0
	equal := true
	for i, name := range scripts {
		f := Scripts[name]
		if f == nil {
			fmt.Fprintln(os.Stderr, "unknown script", name)
			return 2
		}
		f(r)
		ti := Transcript(trace)
		if strings.Join(ti, "\n") != strings.Join(t0, "\n") {
			equal = false
			out["differs_after"] = fmt.Sprintf("%d:%s", i, name)
			out["t_diff"] = ti
			break
		}
	}
	out["equal"] = equal
	b, _ := json.Marshal(out)
	fmt.Println(string(b))
	return 0
}

func c07Independence(c *Ctx) {
	r := c.R
	trace := r.Bool()
	n := r.Range(1, 4)
	var scripts []string
	for i := 0; i < n; i++ {
		scripts = append(scripts, ref.Pick(r, ScriptNames[1:]))
	}
	self, _ := os.Executable()
	cmd := exec.Command(self, "transcript", "-scripts", strings.Join(scripts, ","), fmt.Sprintf("-trace=%v", trace), "-seed", fmt.Sprint(r.U64()))
	cmd.Env = os.Environ()
	outB, err := cmd.Output()
	c.Eval()
	if err != nil {
		c.Violate(fmt.Sprintf("transcript subprocess failed: %v", err), map[string]any{"scripts": scripts, "stdout": string(outB)})
		return
	}
	var res struct {
		T0    []string `json:"t0"`
		Equal bool     `json:"equal"`
		After string   `json:"differs_after"`
		TDiff []string `json:"t_diff"`
	}
	if err := json.Unmarshal(outB, &res); err != nil {
		c.Violate("transcript subprocess printed no result", map[string]any{"stdout": string(outB)})
		return
	}
	c.Class("independence_case")
	c.Nontrivial(fmt.Sprintf("ind|%v|%v", trace, scripts))
	// the same scripts in another fresh process, this time BEFORE the first router is probed
	cmd2 := exec.Command(self, "transcript", "-scripts", strings.Join(scripts, ","), fmt.Sprintf("-trace=%v", trace), "-seed", fmt.Sprint(r.U64()), "-first")
	cmd2.Env = os.Environ()
	if out2, err := cmd2.Output(); err == nil {
		var res2 struct {
			T0 []string `json:"t0"`
		}
		if json.Unmarshal(out2, &res2) == nil && len(res2.T0) > 0 {
			c.Eval()
			c.Class("independence_cross_process")
			if strings.Join(res2.T0, "\n") != strings.Join(res.T0, "\n") {
				var diff []string
				for i := range res.T0 {
					if i < len(res2.T0) && res.T0[i] != res2.T0[i] {
						diff = append(diff, "untouched process: "+res.T0[i], "after activity:    "+res2.T0[i])
					}
				}
				c.Violate("a brand-new router (or Hosts matcher) answers differently when unrelated instances were used before it in the process", map[string]any{"scripts": scripts, "trace": trace, "diff": diff})
				return
			}
		}
	} else {
		c.Violate(fmt.Sprintf("transcript subprocess (-first) failed: %v", err), map[string]any{"scripts": scripts, "stdout": string(out2)})
		return
	}
	if !res.Equal {
		var diff []string
		for i := range res.T0 {
			if i < len(res.TDiff) && res.T0[i] != res.TDiff[i] {
				diff = append(diff, "fresh process: "+res.T0[i], "after activity: "+res.TDiff[i])
			}
		}
		c.Violate("a brand-new router answers differently after unrelated activity ("+res.After+")", map[string]any{"scripts": scripts, "trace": trace, "diff": diff})
		return
	}
	// the fresh-process transcript itself must be right on the points the property names
	for _, line := range res.T0 {
		if strings.HasPrefix(line, "OPTIONS * (new)") {
			want := `allow="OPTIONS"`
			if trace {
				want = `allow="OPTIONS, TRACE"`
			}
			if !strings.Contains(line, want) {
				c.Violate("OPTIONS * on a brand-new router in a fresh process: "+line, nil)
			}
		}
	}
	if c.WantSample("transcript") {
		c.Sample("transcript", map[string]any{"scripts": scripts, "trace": trace, "t0": res.T0})
	}
}

// c07Isolation: sequential isolation battery (cheap, runs in every case). Instances that look related - routers
// made by one Group, two Hosts matchers, a Group's own not-found path next to its routers - share no mutable state.
func c07Isolation(c *Ctx) {
	bad := func(msg string, detail any) { c.Violate("instances are not isolated: "+msg, detail) }
	// (1) interceptors given to one router of a group do not reach its siblings
	env := mon.NewEnv()
	env.RecordMW = false
	g := env.NewGroup()
	a := g.New("a", mux.NewPathVersion("", "a"), mux.WithInterceptor(ref.IsDigits, "digit"))
	b := g.New("b", mux.NewPathVersion("", "b")) // here "digit" is an ordinary regexp: it matches the text "digit"
	a.Handle("/n/{id:digit}", env.NewHnd(mon.KRoute, "/n/{id:digit}"), nil, "GET")
	b.Handle("/n/{id:digit}", env.NewHnd(mon.KRoute, "/n/{id:digit}"), nil, "GET")
	for _, t := range []struct {
		r    *mux.Router[*mon.Hnd]
		path string
		want int
	}{{a, "/n/123", 200}, {a, "/n/digit", 404}, {b, "/n/123", 404}, {b, "/n/digit", 200}} {
		o := mon.Do(t.r, mon.Req{Method: "GET", Path: t.path})
		c.Eval()
		if o.Panicked || o.Status != t.want {
			bad(fmt.Sprintf("router %q of a group answers GET %s with %d (panic %v), expected %d: an interceptor option of a sibling leaked", o.RouterName, t.path, o.Status, o.Panic, t.want), nil)
			return
		}
	}
	// a second sibling may declare the same interceptor name
	if pv := guarded(func() { g.New("c", mux.NewPathVersion("", "c"), mux.WithInterceptor(ref.IsDigits, "digit")) }); pv != nil {
		bad(fmt.Sprintf("a second router of the group cannot declare its own interceptor: %v", pv), nil)
		return
	}
	// (2) two Hosts matchers: an interceptor registered on one is unknown to the other
	h1, h2 := mux.NewHosts(false), mux.NewHosts(false)
	h1.RegisterInterceptor(func(string) bool { return true }, "[0-9]+")
	h1.Add("{id:[0-9]+}.example.com")
	if pv := guarded(func() { h2.Add("{id:[0-9]+}.example.com") }); pv != nil {
		bad(fmt.Sprintf("Hosts.Add on a second matcher panicked: %v", pv), nil)
		return
	}
	ok1, _, _ := matchHost(h1, "abc.example.com")
	ok2, _, _ := matchHost(h2, "abc.example.com")
	c.Eval()
	if !ok1 || ok2 {
		bad(fmt.Sprintf("interceptor registered on one Hosts matcher: Match(abc.example.com) = %v on it, %v on the other (expected true, false)", ok1, ok2), nil)
		return
	}
	if pv := guarded(func() { h2.RegisterInterceptor(func(string) bool { return false }, "[0-9]+") }); pv != nil {
		bad(fmt.Sprintf("the same interceptor name cannot be registered on a second Hosts matcher: %v", pv), nil)
		return
	}
	// (3) the group's own not-found path sees nothing of requests served before (pooled contexts are fully reset)
	solo := env.NewRouter("shop")
	solo.Handle("/items/{id}", env.NewHnd(mon.KRoute, "/items/{id}"), nil, "GET")
	g2 := env.NewGroup()
	g2.New("never", mux.NewHosts(false, "never.example.com"))
	for i := 0; i < 8; i++ {
		mon.Do(solo, mon.Req{Method: "GET", Path: "/items/5"})
		o := mon.Do(g2, mon.Req{Method: "GET", Path: "/x", Host: "other.example.com"})
		c.Eval()
		if o.H == nil || o.H.Base.Kind != mon.KGroup404 || !o.NodeNil || len(o.Params) != 0 || o.RouterName != "" {
			bad(fmt.Sprintf("group not-found handler sees router=%q node=%q params=%s left over from another request", o.RouterName, o.NodePattern, fmtParams(o.Params)), nil)
			return
		}
		empty := env.NewGroup()
		o = mon.Do(empty, mon.Req{Method: "GET", Path: "/x"})
		if o.RouterName != "" || !o.NodeNil || len(o.Params) != 0 {
			bad(fmt.Sprintf("empty group: not-found handler sees router=%q node=%q params=%s left over from another request", o.RouterName, o.NodePattern, fmtParams(o.Params)), nil)
			return
		}
	}
	// (4) middleware lists: routers of a group that already has middlewares each keep a list of their own; Use on one
	// router (or on the group) must not change what a sibling's later routes are wrapped with
	{
		env4 := mon.NewEnv()
		env4.RecordMW = false
		g4 := env4.NewGroup()
		g4.Use(env4.MW("G"))
		r1 := g4.New("r1", mux.NewPathVersion("", "r1"))
		r2 := g4.New("r2", mux.NewPathVersion("", "r2"))
		r1.Use(env4.MW("A"))
		r2.Use(env4.MW("B"))
		want1, want2 := "A>G", "B>G"
		if c.Case%2 == 0 {
			g4.Use(env4.MW("Z"))
			want1, want2 = "Z>A>G", "Z>B>G"
		}
		r1.Handle("/late", env4.NewHnd(mon.KRoute, "/late"), nil, "GET")
		r2.Handle("/late", env4.NewHnd(mon.KRoute, "/late"), nil, "GET")
		for _, t := range []struct {
			r    *mux.Router[*mon.Hnd]
			want string
		}{{r1, want1}, {r2, want2}} {
			_, tr := mon.DoTrace(t.r, mon.Req{Method: "GET", Path: "/late"})
			c.Eval()
			if got := strings.Join(tr, ">"); got != t.want {
				bad(fmt.Sprintf("a route registered on router %q after Use calls on its sibling and its group runs the middlewares %q, expected %q (outermost first)", t.r.Name(), got, t.want), nil)
				return
			}
		}
	}
	// (5) what a router hands out is the caller's to keep: overwriting the method lists returned by one router's
	// Routes(), or by Node().Methods() inside one of its handlers, changes nothing for another router
	{
		envA, envB := mon.NewEnv(), mon.NewEnv()
		ra := envA.NewRouter("scribbled")
		ra.Handle("/a/{id}", envA.NewHnd(mon.KRoute, "/a/{id}"), nil, "GET", "POST")
		ra.Handle("/p", envA.NewHnd(mon.KRoute, "/p"), nil, "PUT")
		envA.OnCallRoute = func(rt types.Route, _ *mon.Hnd) {
			if n := rt.Node(); n != nil {
				ms := n.Methods()
				for i := range ms {
					ms[i] = "SCRIBBLED-BY-HANDLER"
				}
			}
		}
		mon.Do(ra, mon.Req{Method: "GET", Path: "/a/7"})
		mon.Do(ra, mon.Req{Method: "PUT", Path: "/p"})
		for _, ms := range ra.Routes() {
			for i := range ms {
				ms[i] = "SCRIBBLED-BY-CALLER"
			}
		}
		rb := envB.NewRouter("untouched", mux.WithCORS([]string{"*"}, nil, nil, 0, false))
		rb.Handle("/b/{id}", envB.NewHnd(mon.KRoute, "/b/{id}"), nil, "GET", "POST")
		rb.Handle("/q", envB.NewHnd(mon.KRoute, "/q"), nil, "PUT")
		c.Eval()
		routes := rb.Routes()
		if got := strings.Join(mon.SortedCopy(routes["/b/{id}"]), ","); got != "GET,HEAD,OPTIONS,POST" {
			bad(fmt.Sprintf("after the lists returned by another router's Routes()/Node().Methods() were overwritten by their caller, a fresh router lists %q for its route registered with GET, POST", got), nil)
			return
		}
		if got := strings.Join(mon.SortedCopy(routes["/q"]), ","); got != "OPTIONS,PUT" {
			bad(fmt.Sprintf("after the lists returned by another router were overwritten by their caller, a fresh router lists %q for its route registered with PUT", got), nil)
			return
		}
		o := mon.Do(rb, mon.Req{Method: "OPTIONS", Path: "/b/7", Header: map[string]string{"Origin": "https://x.example", "Access-Control-Request-Method": "POST"}})
		if o.Header.Get("Access-Control-Allow-Origin") != "*" || strings.Join(mon.AllowSet(o.Header.Get("Access-Control-Allow-Methods")), ",") != "GET,HEAD,OPTIONS,POST" {
			bad(fmt.Sprintf("after the lists returned by another router were overwritten by their caller, a fresh router answers a preflight for a served method with Allow-Origin %q, Allow-Methods %q", o.Header.Get("Access-Control-Allow-Origin"), o.Header.Get("Access-Control-Allow-Methods")), nil)
			return
		}
		if got := strings.Join(mon.SortedCopy(o.NodeMethods), ","); got != "GET,HEAD,OPTIONS,POST" {
			bad(fmt.Sprintf("Node().Methods() of a fresh router's route is %q after another router's lists were overwritten by their caller", got), nil)
			return
		}
	}
	// (6) responses: what a handler of one router wrote (HEAD goes through a wrapper object) is invisible to the handler
	// of another router's next HEAD request, whose own headers reach the client
	{
		envA, envB := mon.NewEnv(), mon.NewEnv()
		ra, rb := envA.NewRouter("other"), envB.NewRouter("fresh")
		ha := envA.NewHnd(mon.KRoute, "/o")
		ha.Run = func(w http.ResponseWriter, _ *http.Request, _ *mon.Hnd) {
			w.Header().Set("X-Other", "secret-of-other")
			w.Write([]byte("body of the other router"))
		}
		ra.Handle("/o", ha, nil, "GET")
		sawForeign := ""
		hb := envB.NewHnd(mon.KRoute, "/f")
		hb.Run = func(w http.ResponseWriter, _ *http.Request, _ *mon.Hnd) {
			sawForeign = w.Header().Get("X-Other")
			w.Header().Set("X-Fresh", "1")
			w.Write([]byte("fresh"))
		}
		rb.Handle("/f", hb, nil, "GET")
		for k := 0; k < 3; k++ {
			mon.Do(ra, mon.Req{Method: "HEAD", Path: "/o"})
			o := mon.Do(rb, mon.Req{Method: "HEAD", Path: "/f"})
			c.Eval()
			if sawForeign != "" || o.Header.Get("X-Fresh") != "1" || o.Header.Get("X-Other") != "" || o.Header.Get("Content-Length") != "5" {
				bad(fmt.Sprintf("HEAD on a fresh router after HEAD on another one: its handler saw X-Other=%q in its header map, the client got X-Fresh=%q X-Other=%q Content-Length=%q (expected \"\", 1, \"\", 5)", sawForeign, o.Header.Get("X-Fresh"), o.Header.Get("X-Other"), o.Header.Get("Content-Length")), nil)
				return
			}
		}
	}
	// (7) one option value configures two routers (a Group does that for every router it makes; users keep an option list
	// around): the lists given to WithCORS stay the caller's, the second router answers like the first, and the first
	// answers afterwards as it did before
	{
		origins := []string{"https://b.example", "https://a.example", "https://b.example"}
		allow := []string{"X-Token", "Authorization", "X-Token", "content-type"}
		expose := []string{"X-Total", "X-Page", "X-Total"}
		keepO, keepA, keepE := strings.Join(origins, "|"), strings.Join(allow, "|"), strings.Join(expose, "|")
		opt := mux.WithCORS(origins, allow, expose, 60, true)
		ask := func(rt *mux.Router[*mon.Hnd]) string {
			pre := mon.Do(rt, mon.Req{Method: "OPTIONS", Path: "/c/7", Header: map[string]string{"Origin": "https://a.example", "Access-Control-Request-Method": "GET", "Access-Control-Request-Headers": "x-token, CONTENT-TYPE"}})
			pre2 := mon.Do(rt, mon.Req{Method: "OPTIONS", Path: "/c/7", Header: map[string]string{"Origin": "https://b.example", "Access-Control-Request-Method": "GET", "Access-Control-Request-Headers": "authorization"}})
			get := mon.Do(rt, mon.Req{Method: "GET", Path: "/c/7", Header: map[string]string{"Origin": "https://b.example"}})
			hs := func(o *mon.Obs, k string) string { return strings.Join(mon.AllowSet(o.Header.Get(k)), ",") }
			return fmt.Sprintf("preflight(x-token,content-type): origin=%q headers=%q | preflight(authorization): origin=%q | GET: origin=%q expose=%q",
				pre.Header.Get("Access-Control-Allow-Origin"), hs(pre, "Access-Control-Allow-Headers"), pre2.Header.Get("Access-Control-Allow-Origin"),
				get.Header.Get("Access-Control-Allow-Origin"), hs(get, "Access-Control-Expose-Headers"))
		}
		envA, envB := mon.NewEnv(), mon.NewEnv()
		ra := envA.NewRouter("first", opt)
		ra.Handle("/c/{id}", envA.NewHnd(mon.KRoute, "/c/{id}"), nil, "GET")
		before := ask(ra)
		rb := envB.NewRouter("second", opt)
		rb.Handle("/c/{id}", envB.NewHnd(mon.KRoute, "/c/{id}"), nil, "GET")
		c.Eval()
		if got := ask(rb); got != before {
			bad(fmt.Sprintf("two routers built from one WithCORS option value answer differently: first %s; second %s", before, got), nil)
			return
		}
		if got := ask(ra); got != before {
			bad(fmt.Sprintf("a router answers differently after a second router was built from the same WithCORS option value: before %s; after %s", before, got), nil)
			return
		}
		if strings.Join(origins, "|") != keepO || strings.Join(allow, "|") != keepA || strings.Join(expose, "|") != keepE {
			bad(fmt.Sprintf("the lists given to WithCORS were modified: origins %q allowHeaders %q exposedHeaders %q", origins, allow, expose), nil)
			return
		}
		if !strings.Contains(before, `origin="https://a.example" headers=`) || !strings.Contains(before, `GET: origin="https://b.example"`) {
			bad("a configured origin asking for configured headers is refused: "+before, nil)
			return
		}
	}
	// (8) patterns of two routers whose texts agree once the braces are ignored: `{lang:en}|zh` and `{lang:en|zh}`,
	// `{n:\d+}s` and `{n:\d+s}`, `{ab:c+}` and `{a:bc+}` are different patterns. Whatever the first router made of its
	// pattern, the second one resolves its own as the reference resolver says (both orders).
	{
		pairs := [][2]string{{`/docs/{lang:en}|zh`, `/docs/{lang:en|zh}`}, {`/t/{n:\d+}s`, `/t/{n:\d+s}`}, {`/k/{ab:c+}`, `/k/{a:bc+}`}, {`/m/{v:x}y{w:z}`, `/m/{v:x}y{wz}`}}
		probes := []string{"/docs/en", "/docs/zh", "/docs/en|zh", "/t/30s", "/t/30", "/k/c", "/k/bc", "/k/cc", "/k/bcc", "/m/xyz", "/m/xyq"}
		for _, pr := range pairs {
			for _, first := range []int{0, 1} {
				envA, envB := mon.NewEnv(), mon.NewEnv()
				ra, rb := envA.NewRouter("first"), envB.NewRouter("second")
				ra.Handle(pr[first], envA.NewHnd(mon.KRoute, pr[first]), nil, "GET")
				for _, p := range probes {
					mon.Do(ra, mon.Req{Method: "GET", Path: p})
				}
				own := pr[1-first]
				rb.Handle(own, envB.NewHnd(mon.KRoute, own), nil, "GET")
				rs := &ref.Resolver{Pats: parseAll([]string{own}, nil)}
				for _, p := range probes {
					o := mon.Do(rb, mon.Req{Method: "GET", Path: p})
					c.Eval()
					outs := rs.Resolve(p)
					want := "404"
					if len(outs) > 0 {
						want = "200 " + fmtParams(outs[0].Params)
					}
					got := "404"
					if !o.NodeNil {
						got = fmt.Sprintf("%d %s", o.Status, fmtParams(o.Params))
					}
					if got != want {
						bad(fmt.Sprintf("a router whose only route is %q answers GET %s with %s (expected %s) after another router had registered %q", own, p, got, want, pr[first]), nil)
						return
					}
				}
			}
		}
	}
	c.Class("isolation_battery")
}

func runC07(c *Ctx) {
	c07Isolation(c)
	if c.Violated() {
		return
	}
	switch c.Case % 3 {
	case 0:
		c07Parallel(c)
	case 1:
		c07Quiescent(c)
	default:
		c07Independence(c)
	}
}

func init() {
	Register(&Engine{
		ID:    "C07",
		Race:  true,
		Cases: func(t string) int { return map[string]int{"quick": 60, "thorough": 1800}[t] },
		Run:   runC07,
		Post:  racePost("C07"),
		Rule: "three monitors by case index: (0) 3-8 goroutines each build, mutate and serve their own Router/Hosts/Group (own sequential expectations checked, race detector on); (1) one quiescent router (with/without WithLock, recovery configured) served by 16 goroutines x 120 requests with values unique to (goroutine, counter), some panicking in the handler; (2) a fresh subprocess probes a brand-new router, runs 1-4 unrelated activity scripts and probes another brand-new router after each: transcripts must be identical; " +
			"non-trivial (distinct) = parallel case / quiescent case in which pooled contexts were demonstrably reused (Route pointer seen twice) / independence case by (trace, script order)",
		Floors: func(t string) map[string]int64 {
			if t == "quick" {
				return map[string]int64{"parallel_instances": 40, "quiescent_requests": 15000, "quiescent_context_reuse_observed": 1000, "quiescent_recovered_panics": 200, "independence_case": 15}
			}
			return map[string]int64{"parallel_instances": 1500, "quiescent_requests": 500000, "quiescent_context_reuse_observed": 30000, "independence_case": 500}
		},
		Assume: []string{"schedules are sampled, not enumerated", "context reuse is observed through pointer identity of the Route value, not forced"},
		Shards: func(t string) int { return 6 },
	})
}
