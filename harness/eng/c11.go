package eng

import (
	"fmt"
	"net/http"
	"sort"
	"strconv"
	"strings"
	"sync"
	"sync/atomic"

	"github.com/issue9/mux/v9"

	"verifharness/mon"
	"verifharness/ref"
)

// C11 / C12: one engine, one reference decision table (written from the two
// property statements, not from options.go), two verdicts.

type corsCfg struct {
	Origins []string
	AllowH  []string
	Exposed []string
	MaxAge  int
	Creds   bool
	Trace   bool // the router also has WithTrace: TRACE is a served method of every route
	class   string
}

type corsReq struct {
	Method    string
	PathClass string // live, notfound, star
	HasOrigin bool
	Origin    string
	ACRM      string
	ACRH      string
	class     string
}

const (
	hACAO = "Access-Control-Allow-Origin"
	hACAC = "Access-Control-Allow-Credentials"
	hACEH = "Access-Control-Expose-Headers"
	hACAM = "Access-Control-Allow-Methods"
	hACAH = "Access-Control-Allow-Headers"
	hACMA = "Access-Control-Max-Age"
	hACRM = "Access-Control-Request-Method"
	hACRH = "Access-Control-Request-Headers"
)

var corsRouteAllow0 = []string{"GET", "HEAD", "OPTIONS", "POST"}

func corsAllow0(cfg corsCfg) []string {
	if cfg.Trace {
		return []string{"GET", "HEAD", "OPTIONS", "POST", "TRACE"}
	}
	return corsRouteAllow0
}

func hasAny(xs []string) bool { return contains(xs, "*") }

// lowerSet lower-cases a set of header names (names are case-insensitive; an implementation may canonicalise them).
func lowerSet(xs []string) []string {
	out := make([]string, len(xs))
	for i, x := range xs {
		out[i] = strings.ToLower(x)
	}
	sort.Strings(out)
	return out
}

func tokenSet(v string) []string {
	var out []string
	for _, p := range strings.Split(v, ",") {
		if p = strings.TrimSpace(p); p != "" {
			out = append(out, p)
		}
	}
	sort.Strings(out)
	return out
}

// corsJudge returns the C11 and C12 complaints for one response.
func corsJudge(cfg corsCfg, q corsReq, status int, h map[string][]string, corsRouteAllow []string) (c11, c12 []string) {
	get := func(k string) (string, bool) {
		v, ok := h[k]
		if !ok || len(v) == 0 {
			return "", false
		}
		return strings.Join(v, ","), true
	}
	served := false
	switch q.PathClass {
	case "live":
		served = contains(corsRouteAllow, q.Method)
	case "star", "empty":
		// "empty": the absolute-form target without a path (`OPTIONS http://host`) selects the server-wide handler too, but -
		// unlike `*` - a request to it that carries Access-Control-Request-Method is an ordinary preflight
		served = q.Method == "OPTIONS"
	}
	preflight := q.Method == "OPTIONS" && q.ACRM != "" && q.PathClass != "star"
	servedMethod := contains(corsRouteAllow, q.ACRM)
	anyO, anyH := hasAny(cfg.Origins), hasAny(cfg.AllowH)
	headersAllowed := true
	// an empty element ("a,,b") is neither inside nor outside the list: either answer is accepted
	emptyElement := false
	for _, t := range strings.Split(q.ACRH, ",") {
		if strings.TrimSpace(t) == "" && strings.TrimSpace(q.ACRH) != "" {
			emptyElement = true
		}
	}
	if !anyH {
		for _, t := range tokenSet(q.ACRH) {
			ok := false
			for _, a := range cfg.AllowH {
				if strings.EqualFold(a, t) {
					ok = true
				}
			}
			if !ok {
				headersAllowed = false
			}
		}
	}
	listed := q.HasOrigin && contains(cfg.Origins, q.Origin) && q.Origin != "*"

	acao, hasACAO := get(hACAO)
	acac, hasACAC := get(hACAC)

	// ---- C11: must-not clauses ----
	mustNone := ""
	switch {
	case len(cfg.Origins) == 0:
		mustNone = "no origins are configured"
	case !served || status == 404 || status == 405:
		mustNone = "the response is a 404/405"
	case preflight && !servedMethod:
		mustNone = "preflight for a method the route does not serve"
	case preflight && !headersAllowed:
		mustNone = "preflight asks for a header outside the allowed list"
	}
	undecided := preflight && servedMethod && headersAllowed && emptyElement && !anyH
	if hasACAO {
		if mustNone != "" {
			c11 = append(c11, fmt.Sprintf("%s=%q sent although %s", hACAO, acao, mustNone))
		}
		if !(acao == "*" && anyO) && !(listed && acao == q.Origin) {
			c11 = append(c11, fmt.Sprintf("%s=%q is neither a configured '*' nor the request's own listed origin", hACAO, acao))
		}
	}
	if hasACAC && strings.EqualFold(acac, "true") {
		if !hasACAO || !listed || acao != q.Origin || acao == "*" {
			c11 = append(c11, fmt.Sprintf("%s: true without an echoed, listed origin (%s=%q)", hACAC, hACAO, acao))
		}
	}

	// ---- C12: must clauses ----
	originAllowed := anyO || listed
	grant := mustNone == "" && originAllowed
	_, hasACAM := get(hACAM)
	_, hasACAH := get(hACAH)
	_, hasACMA := get(hACMA)
	if !preflight && (hasACAM || hasACAH || hasACMA) {
		c12 = append(c12, "a request that is not a preflight carries preflight-only headers")
	}
	if !grant || undecided {
		return
	}
	if !hasACAO {
		c12 = append(c12, fmt.Sprintf("allowed origin, served method: %s missing", hACAO))
		return
	}
	if cfg.Creds != (hasACAC && acac == "true") {
		c12 = append(c12, fmt.Sprintf("%s=%q, configured %v", hACAC, acac, cfg.Creds))
	}
	exp, hasExp := get(hACEH)
	if (len(cfg.Exposed) > 0) != hasExp || (hasExp && !mon.EqualSets(lowerSet(tokenSet(exp)), lowerSet(cfg.Exposed))) {
		c12 = append(c12, fmt.Sprintf("%s=%q, configured %v", hACEH, exp, cfg.Exposed))
	}
	vary := map[string]bool{}
	for _, v := range h["Vary"] {
		for _, t := range tokenSet(v) {
			vary[strings.ToLower(t)] = true
		}
	}
	if !anyO && !vary["origin"] {
		c12 = append(c12, fmt.Sprintf("origin picked from a list but Vary=%v does not name Origin", h["Vary"]))
	}
	if preflight {
		am, _ := get(hACAM)
		if !mon.EqualSets(tokenSet(am), corsRouteAllow) {
			c12 = append(c12, fmt.Sprintf("allowed preflight: %s=%q, route's Allow set is %v", hACAM, am, corsRouteAllow))
		}
		ah, _ := get(hACAH)
		switch {
		case anyH:
			if !contains(tokenSet(ah), "*") {
				c12 = append(c12, fmt.Sprintf("allowed preflight: %s=%q, configured '*'", hACAH, ah))
			}
		case len(cfg.AllowH) > 0:
			if !mon.EqualSets(lowerSet(tokenSet(ah)), lowerSet(cfg.AllowH)) {
				c12 = append(c12, fmt.Sprintf("allowed preflight: %s=%q, configured %v", hACAH, ah, cfg.AllowH))
			}
		default:
			if hasACAH {
				c12 = append(c12, fmt.Sprintf("%s=%q sent although none is configured", hACAH, ah))
			}
		}
		ma, _ := get(hACMA)
		wantMA := ""
		if cfg.MaxAge != 0 {
			wantMA = strconv.Itoa(cfg.MaxAge)
		}
		if ma != wantMA {
			c12 = append(c12, fmt.Sprintf("allowed preflight: %s=%q, configured %q", hACMA, ma, wantMA))
		}
		if !vary[strings.ToLower(hACRM)] {
			c12 = append(c12, fmt.Sprintf("allowed preflight but Vary=%v does not name %s", h["Vary"], hACRM))
		}
		if hasACAH && !vary[strings.ToLower(hACRH)] {
			c12 = append(c12, fmt.Sprintf("%s is sent but Vary=%v does not name %s", hACAH, h["Vary"], hACRH))
		}
	}
	return
}

// properPrefix returns a non-empty proper prefix of a header name (the name itself when it has one byte).
func properPrefix(h string) string {
	if len(h) < 2 {
		return h
	}
	n := len(h) - 3
	if n < 1 {
		n = 1
	}
	return h[:n]
}

// ---- class enumeration ----

func corsConfigs() []corsCfg {
	var out []corsCfg
	origins := map[string][]string{"none": nil, "any": {"*"}, "one": {"https://a.example"}, "several": {"https://a.example", "https://b.example", "null"}, "any+others": {"https://a.example", "*"},
		// an entry that merely contains an asterisk is an ordinary entry (there are no origin patterns): only the element "*" means any
		"asterisk-inside": {"https://*.example.com", "https://a.example"}}
	headers := map[string][]string{"none": nil, "any": {"*"}, "list": {"Content-Type", "X-Token"},
		"mixed-case-list": {"X-Token-Id", "authorization", "Content-Type", "x-lower"},
		"asterisk-inside": {"X-Client-*", "Content-Type", "X-Token"}}
	exposed := map[string][]string{"none": nil, "list": {"X-Exp", "X-Other"}}
	for _, on := range []string{"none", "any", "one", "several", "any+others", "asterisk-inside"} {
		for _, hn := range []string{"none", "any", "list", "mixed-case-list", "asterisk-inside"} {
			for _, en := range []string{"none", "list"} {
				for _, ma := range []int{0, -1, 3600} {
					for _, cr := range []bool{false, true} {
						if cr && hasAny(origins[on]) {
							continue // rejected by NewRouter: '*' and credentials exclude each other
						}
						out = append(out, corsCfg{Origins: origins[on], AllowH: headers[hn], Exposed: exposed[en], MaxAge: ma, Creds: cr,
							class: fmt.Sprintf("origins=%s headers=%s exposed=%s maxage=%d creds=%v", on, hn, en, ma, cr)})
					}
				}
			}
		}
	}
	return out
}

func corsRequests(cfg corsCfg, r *ref.R, random bool) []corsReq {
	var out []corsReq
	listedOrigin := "https://a.example"
	rs := func(s string) string {
		if !random {
			return s
		}
		return s + fmt.Sprint(r.Intn(1000))
	}
	type oc struct {
		name string
		has  bool
		val  string
	}
	originClasses := []oc{{"absent", false, ""}, {"listed", true, listedOrigin}, {"unlisted", true, rs("https://evil.example")}, {"case-differs", true, "HTTPS://A.EXAMPLE"}, {"null", true, "null"}, {"star", true, "*"}, {"of-a-sibling-router", true, "http://0-sibling.example"}}
	// requested-header classes are derived from the configured list (cfgH falls back to a fixed list for none/any)
	cfgH := cfg.AllowH
	if len(cfgH) == 0 || hasAny(cfgH) {
		cfgH = []string{"Content-Type", "X-Token"}
	}
	pickH := func(i int) string {
		if random {
			return cfgH[r.Intn(len(cfgH))]
		}
		return cfgH[i%len(cfgH)]
	}
	allLower := strings.ToLower(strings.Join(cfgH, ", "))
	longest := cfgH[0]
	for _, h := range cfgH {
		if len(h) > len(longest) {
			longest = h
		}
	}
	acrhClasses := map[string]string{
		"absent":               "",
		"as-configured":        pickH(0),
		"lower-case":           allLower,
		"each-upper-case":      strings.ToUpper(pickH(1)) + "," + strings.ToUpper(pickH(2)) + "," + strings.ToUpper(pickH(3)),
		"mixed-spaces":         " " + pickH(1) + " ,  " + strings.ToUpper(pickH(0)),
		"one-disallowed":       pickH(0) + ", " + rs("X-Evil"),
		"prefix-of-allowed":    properPrefix(longest),
		"extension-of-allowed": pickH(0) + "-More",
		"empty-element":        pickH(0) + ",," + pickH(1),
		// scale: forty entries; all allowed, and all allowed but the last
		"forty-allowed":         strings.Repeat(pickH(0)+", "+strings.ToLower(pickH(1))+", ", 20) + pickH(2),
		"forty-then-disallowed": strings.Repeat(pickH(0)+", "+strings.ToLower(pickH(1))+", ", 20) + rs("X-Evil"),
		// an allowed name with one byte that is no letter replaced by the byte that differs from it in bit 0x20 only
		// ('-' and CR, '_' and DEL, '~' and '^', '2' and 0x12): case folding is for letters
		"byte-neighbour-of-allowed": byteNeighbour(pickH(0)) + ", " + pickH(1),
	}
	for _, m := range []string{"GET", "HEAD", "POST", "OPTIONS", "PUT", "BOGUS"} {
		for _, pc := range []string{"live", "notfound", "star"} {
			for _, o := range originClasses {
				for _, acrm := range []string{"", "GET", "POST", "DELETE", "get", "GE", "GET, HEAD", "PROPFIND", "HEAD", "OPTIONS", "TRACE"} {
					for _, hn := range []string{"absent", "as-configured", "lower-case", "each-upper-case", "mixed-spaces", "one-disallowed", "prefix-of-allowed", "extension-of-allowed", "empty-element", "forty-allowed", "forty-then-disallowed", "byte-neighbour-of-allowed"} {
						out = append(out, corsReq{Method: m, PathClass: pc, HasOrigin: o.has, Origin: o.val, ACRM: acrm, ACRH: acrhClasses[hn],
							class: fmt.Sprintf("%s %s origin=%s acrm=%q acrh=%s", m, pc, o.name, acrm, hn)})
					}
				}
			}
		}
	}
	return out
}

// byteNeighbour replaces the first byte of name that is no letter by the byte that differs from it in bit 0x20 only
// (a name of letters only gets a '~' appended): equal for a comparison that folds case by or-ing 0x20 into every byte.
func byteNeighbour(name string) string {
	b := []byte(name)
	for i, c := range b {
		if !(c >= 'a' && c <= 'z' || c >= 'A' && c <= 'Z') && c != ',' && c != ' ' {
			b[i] = c ^ 0x20
			return string(b)
		}
	}
	return name + "~"
}

func runCORS(c *Ctx, prop string) {
	cfgs := corsConfigs()
	cfg := cfgs[c.Case%len(cfgs)]
	random := c.Case >= len(cfgs) // the first pass instantiates every class canonically, later passes randomly
	if random && len(cfg.AllowH) > 0 && !hasAny(cfg.AllowH) {
		// a random allow-list: 1-6 names in random spelling and order (unsorted, mixed case, names that are prefixes of each other)
		pool := []string{"Content-Type", "X-Token", "X-Token-Id", "Authorization", "X", "x-a", "Accept-Language", "X-Requested-With", "If-Match", "a", "X_Api~Key", "X-V2", "x|y"}
		ref.Shuffle(c.R, pool)
		cfg.AllowH = nil
		for _, h := range pool[:c.R.Range(1, 6)] {
			cfg.AllowH = append(cfg.AllowH, randCase(c.R, h))
		}
		cfg.class += fmt.Sprintf(" allowH=%v", cfg.AllowH)
	}
	if random && c.R.Chance(1, 4) {
		cfg.Trace = true
		cfg.class += " +WithTrace"
		c.Class("cors_router_with_trace")
	}
	env := mon.NewEnv()
	r := corsRouter(c, env, cfg, c.Case/len(cfgs))
	c.Class("config_class_enumerated")
	for qi, q := range corsRequests(cfg, c.R, random) {
		path := map[string]string{"live": "/c/7", "notfound": "/nothing", "star": "*"}[q.PathClass]
		if q.PathClass == "live" && qi%5 == 4 {
			path = "/boom/7" // same route shape, the handler panics and is recovered
			c.Class("request_to_panicking_route")
		}
		if q.PathClass == "live" && qi%7 == 3 {
			mon.Do(r, mon.Req{Method: ref.Pick(c.R, []string{"GET", "POST", "OPTIONS", "HEAD"}), Path: "/scribble/7", Header: hdr0(q)})
			c.Class("request_to_header_editing_route")
		}
		if q.PathClass == "star" && qi%2 == 1 {
			path, q.PathClass = "", "empty"
			q.class = strings.Replace(q.class, " star ", " empty-path ", 1)
			c.Class("request_with_empty_path")
		}
		hdr := map[string]string{}
		if q.HasOrigin {
			hdr["Origin"] = q.Origin
		}
		if q.ACRM != "" {
			hdr[hACRM] = q.ACRM
		}
		if q.ACRH != "" {
			hdr[hACRH] = q.ACRH
		}
		o := mon.Do(r, mon.Req{Method: q.Method, Path: path, Header: hdr})
		c.Eval()
		if o.Panicked || o.NilHandler {
			c.Violate("CORS request panicked or nil handler", map[string]any{"config": cfg.class, "request": q.class})
			return
		}
		allowSet := corsAllow0(cfg)
		if q.PathClass == "empty" {
			allowSet = mon.AllowSet(o.Header.Get("Allow")) // what the server-wide handler itself says it serves
		}
		c11, c12 := corsJudge(cfg, q, o.Status, o.Header, allowSet)
		complaints := c11
		if prop == "C12" {
			complaints = c12
		}
		if len(complaints) > 0 {
			c.Violate(strings.Join(complaints, "; "), map[string]any{"config": cfg.class, "request": q.class, "request_headers": hdr, "status": o.Status, "response_headers": o.Header})
			return
		}
		_, has := o.Header[hACAO]
		if has {
			c.Class("responses_with_ACAO")
		} else {
			c.Class("responses_without_ACAO")
		}
		if _, ok := o.Header[hACAM]; ok && has {
			c.Class("granted_preflights")
		}
		c.Nontrivial(cfg.class + "|" + q.class + "|" + q.Origin + "|" + q.ACRH)
		if c.WantSample("cors") && has && q.Method == "OPTIONS" {
			c.Sample("cors", map[string]any{"config": cfg.class, "request": q.class, "response_headers": o.Header})
		}
	}
	corsHistory(c, prop, cfg, r, env)
	if c.Case%8 == 5 && !c.Violated() {
		corsConcurrent(c, prop, cfg)
	}
}

// corsConcurrent: the decisions are per request - sixteen goroutines put their very first requests to a fresh router
// at the same moment (a long, unsorted origin list; preflights with thirty-two requested headers, allowed ones and
// ones that end in a disallowed name) and keep going; every answer is judged by the same judge as the sequential ones.
func corsConcurrent(c *Ctx, prop string, base corsCfg) {
	r := c.R
	cfg := base
	cfg.class += " +2500 origins, concurrent"
	if !hasAny(base.Origins) && len(base.Origins) > 0 {
		var many []string
		for i := 0; i < 2500; i++ {
			many = append(many, fmt.Sprintf("https://o%d-%d.example", r.Intn(1000000), i))
		}
		cfg.Origins = append(many, base.Origins...)
		ref.Shuffle(r, cfg.Origins)
	}
	if len(cfg.AllowH) == 0 {
		cfg.AllowH = []string{"Content-Type", "X-Token", "X-Trace-Id"}
	}
	env := mon.NewEnv()
	rt := env.NewRouter("concurrent", mux.WithCORS(cfg.Origins, cfg.AllowH, cfg.Exposed, cfg.MaxAge, cfg.Creds))
	rt.Handle("/c/{id}", env.NewHnd(mon.KRoute, "/c/{id}"), nil, "GET", "POST")
	allowedList := func(lr *ref.R, evil bool) string {
		var names []string
		for i := 0; i < 32; i++ {
			names = append(names, ref.Pick(lr, cfg.AllowH))
		}
		if evil && !hasAny(cfg.AllowH) {
			names[lr.Intn(len(names))] = fmt.Sprintf("x-evil-%d", lr.Intn(9))
		}
		return strings.Join(names, ", ")
	}
	const workers = 16
	var wg sync.WaitGroup
	var mu sync.Mutex
	var complaints []string
	var judged atomic.Int64
	start := make(chan struct{})
	for g := 0; g < workers; g++ {
		wg.Add(1)
		lr := ref.NewR(r.U64())
		go func() {
			defer wg.Done()
			<-start
			for i := 0; i < 250; i++ {
				q := corsReq{Method: "OPTIONS", PathClass: "live", HasOrigin: true, ACRM: ref.Pick(lr, []string{"GET", "POST", "DELETE"})}
				q.Origin = "https://a.example"
				if len(cfg.Origins) > 0 {
					q.Origin = ref.Pick(lr, cfg.Origins)
				}
				if lr.Chance(1, 6) {
					q.Origin = "https://evil.example"
				}
				switch lr.Intn(4) {
				case 0:
					q.Method, q.ACRM = "GET", ""
				case 1:
					q.ACRH = allowedList(lr, true)
				default:
					q.ACRH = allowedList(lr, false)
				}
				q.class = fmt.Sprintf("concurrent %s origin=%q acrm=%q acrh=%q", q.Method, q.Origin, q.ACRM, q.ACRH)
				hdr := map[string]string{"Origin": q.Origin}
				if q.ACRM != "" {
					hdr[hACRM] = q.ACRM
				}
				if q.ACRH != "" {
					hdr[hACRH] = q.ACRH
				}
				o := mon.Do(rt, mon.Req{Method: q.Method, Path: "/c/7", Header: hdr})
				judged.Add(1)
				c11, c12 := corsJudge(cfg, q, o.Status, o.Header, corsRouteAllow0)
				cs := c11
				if prop == "C12" {
					cs = c12
				}
				if o.Panicked {
					cs = append(cs, fmt.Sprintf("panic: %v", o.Panic))
				}
				if len(cs) > 0 {
					mu.Lock()
					if len(complaints) < 5 {
						complaints = append(complaints, strings.Join(cs, "; ")+" ["+q.class+"]")
					}
					mu.Unlock()
					return
				}
			}
		}()
	}
	close(start)
	wg.Wait()
	c.EvalN(int(judged.Load()))
	c.ClassN("concurrent_cors_requests_judged", int(judged.Load()))
	if len(complaints) > 0 {
		c.Violate("concurrent requests: "+complaints[0], map[string]any{"config": cfg.class, "more": complaints})
	}
}

// corsRouter builds the router under test. pass selects the container: a stand-alone router, or a router made by
// Group.New whose own WithCORS option has to override a different CORS option given to the group. Every router
// has a recovery option and a second route whose handler panics: the recovered response is a response of a
// live route and served method like any other.
func hdr0(q corsReq) map[string]string {
	hdr := map[string]string{}
	if q.HasOrigin {
		hdr["Origin"] = q.Origin
	}
	if q.ACRM != "" {
		hdr[hACRM] = q.ACRM
	}
	if q.ACRH != "" {
		hdr[hACRH] = q.ACRH
	}
	return hdr
}

func corsRouter(c *Ctx, env *mon.Env, cfg corsCfg, pass int) *mux.Router[*mon.Hnd] {
	// the origin list is the front window of a larger array of the caller; a sibling router is configured afterwards
	// with the whole array (its extra origin sorts first): what the sibling's construction does with its list must not
	// change the window of the router under test
	origins := cfg.Origins
	var arena []string
	if n := len(cfg.Origins); n > 0 && !hasAny(cfg.Origins) {
		arena = make([]string, 0, n+2)
		arena = append(append(arena, cfg.Origins...), "http://0-sibling.example")
		origins = arena[:n]
	}
	own := mux.WithCORS(origins, cfg.AllowH, cfg.Exposed, cfg.MaxAge, cfg.Creds)
	defer func() {
		if arena != nil {
			env.NewRouter("sibling-sharing-the-origin-array", mux.WithCORS(arena, nil, nil, 0, true))
		}
	}()
	rec := mux.WithRecovery(func(w http.ResponseWriter, v any) { w.WriteHeader(500) })
	extra := []mux.Option{rec}
	if cfg.Trace {
		extra = append(extra, mux.WithTrace(env.NewHnd(mon.KTrace, "")))
	}
	var r *mux.Router[*mon.Hnd]
	// an earlier CORS option of another meaning: the later one (the configuration under test) replaces it entirely,
	// also when it configures no origin at all
	other := mux.WithCORS([]string{"https://group.example"}, []string{"X-Group"}, []string{"X-Group-Exposed"}, 7, true)
	if !hasAny(cfg.Origins) && c.R.Bool() {
		other = mux.WithAllowedCORS(99)
	}
	switch pass % 4 {
	case 1, 3:
		g := env.NewGroup(append([]mux.Option{other}, extra...)...)
		r = g.New("r", nil, own)
		c.Class("router_made_by_group_with_other_cors_option")
	case 2:
		r = env.NewRouter("r", append([]mux.Option{other, own}, extra...)...)
		c.Class("router_with_an_earlier_cors_option_overridden")
	default:
		r = env.NewRouter("r", append([]mux.Option{own}, extra...)...)
	}
	r.Handle("/c/{id}", env.NewHnd(mon.KRoute, "/c/{id}"), nil, "GET", "POST")
	boom := env.NewHnd(mon.KRoute, "/boom/{id}")
	boom.Panic = &mon.PanicSpec{Value: "handler panics"}
	r.Handle("/boom/{id}", boom, nil, "GET", "POST")
	// a handler that edits, in place, every header value the router put into its own response (its response is its own
	// business and is not judged): the values of later responses must come out as configured all the same
	scr := env.NewHnd(mon.KRoute, "/scribble/{id}")
	scr.Run = func(w http.ResponseWriter, _ *http.Request, _ *mon.Hnd) {
		for _, vs := range w.Header() {
			for i := range vs {
				vs[i] = "edited-in-place-by-a-handler"
			}
		}
		w.WriteHeader(200)
	}
	r.Handle("/scribble/{id}", scr, nil, "GET", "POST")
	return r
}

// corsHistory: the route's method set changes (methods added, removed by name - also absent ones and
// repeated names -, removed entirely and re-added) and a reduced request matrix is judged after every
// step against the model's current Allow set. Grants must follow the route table at every moment.
func corsHistory(c *Ctx, prop string, cfg corsCfg, r *mux.Router[*mon.Hnd], env *mon.Env) {
	rnd := c.R
	live := map[string]bool{"GET": true, "POST": true}
	allow := func() []string {
		if len(live) == 0 {
			return nil
		}
		set := []string{"OPTIONS"}
		for m := range live {
			set = append(set, m)
		}
		if live["GET"] {
			set = append(set, "HEAD")
		}
		if cfg.Trace {
			set = append(set, "TRACE")
		}
		sort.Strings(set)
		return set
	}
	anyM := []string{"GET", "POST", "DELETE", "PUT", "PATCH", "CONNECT"}
	var ops []string
	ask := func(m, origin, acrm, acrh string, cur []string) bool {
		q := corsReq{Method: m, PathClass: "live", HasOrigin: true, Origin: origin, ACRM: acrm, ACRH: acrh, class: fmt.Sprintf("after %v: %s origin=%s acrm=%q", ops, m, origin, acrm)}
		if cur == nil {
			q.PathClass = "notfound" // the route is gone: every request is a 404
		}
		hdr := map[string]string{"Origin": q.Origin}
		if q.ACRM != "" {
			hdr[hACRM] = q.ACRM
		}
		if q.ACRH != "" {
			hdr[hACRH] = q.ACRH
		}
		o := mon.Do(r, mon.Req{Method: m, Path: "/c/7", Header: hdr})
		c.Eval()
		if o.Panicked || o.NilHandler {
			c.Violate("CORS request panicked or nil handler", map[string]any{"config": cfg.class, "request": q.class})
			return false
		}
		c11, c12 := corsJudge(cfg, q, o.Status, o.Header, cur)
		cm := c11
		if prop == "C12" {
			cm = c12
		}
		if len(cm) > 0 {
			c.Violate(strings.Join(cm, "; "), map[string]any{"config": cfg.class, "request": q.class, "route_allow": cur, "request_headers": hdr, "status": o.Status, "response_headers": o.Header})
			return false
		}
		c.Class("history_request_judged")
		return true
	}
	cleaned := false
	for step := 0; step < 12 && !c.Violated(); step++ {
		repeat := ""
		switch rnd.Intn(5) {
		case 0, 1: // add a method that is not live
			var free []string
			for _, m := range anyM {
				if !live[m] {
					free = append(free, m)
				}
			}
			if len(free) > 0 {
				m := ref.Pick(rnd, free)
				r.Handle("/c/{id}", env.NewHnd(mon.KRoute, "/c/{id}"), nil, m)
				live[m] = true
				ops = append(ops, "Handle "+m)
			}
		case 2, 3: // remove by name: a live one, an absent one, a repeated one
			ms := []string{ref.Pick(rnd, anyM), ref.Pick(rnd, anyM)}
			if len(live) > 1 && rnd.Bool() {
				// exactly one live method, so that the route survives with the others: an answer remembered for the removed
				// method would now be wrong
				var names []string
				for m := range live {
					names = append(names, m)
				}
				sort.Strings(names)
				ms = []string{ref.Pick(rnd, names)}
				repeat = ms[0]
				if !ask("OPTIONS", "https://a.example", repeat, "", allow()) {
					return
				}
			}
			if rnd.Bool() {
				ms = append(ms, ms[0])
			}
			r.Remove("/c/{id}", ms...)
			for _, m := range ms {
				delete(live, m)
			}
			ops = append(ops, fmt.Sprintf("Remove %v", ms))
		default:
			if rnd.Bool() {
				r.Remove("/c/{id}")
				ops = append(ops, "Remove all")
			} else {
				// everything goes (the /boom and /scribble routes too): the router is as new
				r.Clean()
				ops = append(ops, "Router.Clean()")
				cleaned = true
			}
			live = map[string]bool{}
		}
		cur := allow()
		// the server-wide handler (empty request path) as a preflight target: it serves what is registered somewhere
		if !c.Violated() {
			wide := map[string]bool{"OPTIONS": true}
			if cfg.Trace {
				wide["TRACE"] = true
			}
			for m := range live {
				wide[m] = true
			}
			if !cleaned { // /boom and /scribble are registered with GET and POST
				wide["GET"], wide["POST"] = true, true
			}
			var ws []string
			for m := range wide {
				ws = append(ws, m)
			}
			sort.Strings(ws)
			for _, acrm := range []string{"GET", "POST", "DELETE", "PUT", "PATCH"} {
				q := corsReq{Method: "OPTIONS", PathClass: "empty", HasOrigin: true, Origin: "https://a.example", ACRM: acrm, class: fmt.Sprintf("after %v: OPTIONS with an empty path, acrm=%q", ops, acrm)}
				hdr := map[string]string{"Origin": q.Origin, hACRM: acrm}
				o := mon.Do(r, mon.Req{Method: "OPTIONS", Path: "", Header: hdr})
				c.Eval()
				c11, c12 := corsJudge(cfg, q, o.Status, o.Header, ws)
				cm := c11
				if prop == "C12" {
					cm = c12
				}
				if o.Panicked {
					cm = append(cm, fmt.Sprintf("panic: %v", o.Panic))
				}
				if len(cm) > 0 {
					c.Violate(strings.Join(cm, "; "), map[string]any{"config": cfg.class, "request": q.class, "registered_somewhere": ws, "request_headers": hdr, "status": o.Status, "response_headers": o.Header})
					return
				}
				c.Class("history_server_wide_preflight_judged")
			}
		}
		if repeat != "" && !ask("OPTIONS", "https://a.example", repeat, "", cur) {
			return // the browser repeats the preflight it sent just before the method was removed: first request after the removal
		}
		acrms := []string{"", "GET", "POST", "PUT", "DELETE", "PATCH", "HEAD", "OPTIONS", "TRACE"}
		ref.Shuffle(rnd, acrms)
		for _, m := range []string{"GET", "POST", "OPTIONS", "PUT", "DELETE"} {
			for _, origin := range []string{"https://a.example", "https://evil.example"} {
				for _, acrm := range acrms {
					if acrm != "" && m != "OPTIONS" {
						continue
					}
					acrh := ""
					if len(cfg.AllowH) > 0 && !hasAny(cfg.AllowH) && rnd.Bool() {
						acrh = strings.ToLower(cfg.AllowH[0])
					}
					if !ask(m, origin, acrm, acrh, cur) {
						return
					}
				}
			}
		}
	}
}

func corsDirected(prop string) func() []Directed {
	return func() []Directed {
		one := func(id string, cfg corsCfg, q corsReq) Directed {
			return Directed{ID: id, Run: func(c *Ctx) {
				env := mon.NewEnv()
				r := env.NewRouter("r", mux.WithCORS(cfg.Origins, cfg.AllowH, cfg.Exposed, cfg.MaxAge, cfg.Creds))
				r.Handle("/c/{id}", env.NewHnd(mon.KRoute, "/c/{id}"), nil, "GET", "POST")
				hdr := map[string]string{}
				if q.HasOrigin {
					hdr["Origin"] = q.Origin
				}
				if q.ACRM != "" {
					hdr[hACRM] = q.ACRM
				}
				if q.ACRH != "" {
					hdr[hACRH] = q.ACRH
				}
				o := mon.Do(r, mon.Req{Method: q.Method, Path: "/c/7", Header: hdr})
				c.Eval()
				c11, c12 := corsJudge(cfg, q, o.Status, o.Header, corsRouteAllow0)
				cm := c11
				if prop == "C12" {
					cm = c12
				}
				if len(cm) > 0 {
					c.Violate(strings.Join(cm, "; "), map[string]any{"request_headers": hdr, "response_headers": o.Header})
				}
			}}
		}
		cfg := corsCfg{Origins: []string{"https://a.example"}, AllowH: []string{"Content-Type"}, MaxAge: 50, Creds: true}
		return []Directed{
			one("browser-lower-case-requested-header", cfg, corsReq{Method: "OPTIONS", PathClass: "live", HasOrigin: true, Origin: "https://a.example", ACRM: "GET", ACRH: "content-type"}),
			one("vary-names-request-headers", cfg, corsReq{Method: "OPTIONS", PathClass: "live", HasOrigin: true, Origin: "https://a.example", ACRM: "POST", ACRH: "Content-Type"}),
			one("simple-request-listed-origin", cfg, corsReq{Method: "GET", PathClass: "live", HasOrigin: true, Origin: "https://a.example"}),
			one("simple-request-unlisted-origin", cfg, corsReq{Method: "GET", PathClass: "live", HasOrigin: true, Origin: "https://evil.example"}),
		}
	}
}

func init() {
	n := len(corsConfigs())
	cases := func(t string) int {
		if t == "thorough" {
			return n * 400
		}
		return n * 8
	}
	rule := "the class product is enumerated completely: " + fmt.Sprint(n) + " configuration classes (origins none/any/one/several/any+others/an entry with an asterisk inside x allowed headers none/any/list/mixed-case unsorted list/a name with an asterisk inside x exposed x max-age 0/-1/n x credentials, minus the rejected '*'+credentials) x 16632 request classes (6 methods x 3 paths x 7 origin classes (absent, listed, unlisted, other case, null, *, the origin of a sibling router that shares the caller's origin array) x 11 Access-Control-Request-Method classes (absent, served, unserved, lower case, fragment, joined list, unknown, the automatically served HEAD and OPTIONS, and TRACE which is not served without WithTrace) x 12 Access-Control-Request-Headers classes derived from the configured list: as configured, lower/upper case, spaced lists, one disallowed, proper prefix / extension of an allowed name, empty element, forty entries all allowed / all but the last, an allowed name with one non-letter byte flipped in bit 0x20); first pass canonical strings, further passes random instantiations; " +
		"non-trivial (distinct) = every (configuration class, request class, concrete strings) triple"
	Register(&Engine{
		ID: "C11", Cases: cases, Anchors: []string{"options.go:cors.handle", "options.go:cors.headerIsAllowed", "options.go:cors.sanitize"}, Run: func(c *Ctx) { runCORS(c, "C11") }, Directed: corsDirected("C11"), Rule: rule, Exhaustive: true,
		Floors: func(t string) map[string]int64 {
			return map[string]int64{"config_class_enumerated": int64(n), "responses_with_ACAO": 20000, "responses_without_ACAO": 100000}
		},
		Assume: []string{"exhaustive refers to the class product, not to concrete header strings", "for a configuration listing '*' next to other origins either '*' or the echoed listed origin is accepted"},
	})
	Register(&Engine{
		ID: "C12", Cases: cases, Anchors: []string{"options.go:cors.handle", "options.go:cors.headerIsAllowed", "options.go:cors.sanitize"}, Run: func(c *Ctx) { runCORS(c, "C12") }, Directed: corsDirected("C12"), Rule: rule, Exhaustive: true,
		Floors: func(t string) map[string]int64 {
			return map[string]int64{"config_class_enumerated": int64(n), "responses_with_ACAO": 20000, "granted_preflights": 2000}
		},
		Assume: []string{"only presence of the required Vary names is demanded (extra entries are not a violation)", "Allow-Headers for a '*' configuration must contain '*'"},
	})
}
