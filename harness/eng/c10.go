package eng

import (
	"fmt"
	"sort"
	"strings"
	"unicode/utf8"

	"github.com/issue9/mux/v9"

	"verifharness/gen"
	"verifharness/mon"
	"verifharness/ref"
)

// C10: reverse URL building substitutes parameters exactly and inverts matching.

type urlExpect struct {
	skip bool // the property does not determine the result
	err  bool
	out  string
	why  string
}

// refURL is the independent model. live=nil means "no router" (mux.URL).
func refURL(s *Sys, domain string, strict bool, pattern string, params map[string]string, ic ref.Interceptors) urlExpect {
	if pattern == "" {
		return urlExpect{out: domain, why: "empty pattern"}
	}
	if !strict {
		if len(params) == 0 {
			// the statement speaks about non-empty params; with empty params only a literal-only, well-formed pattern is judged
			if pp, cls := ref.Parse(pattern, nil); cls != ref.SynOK || pp.HasParams() {
				return urlExpect{skip: true}
			}
			return urlExpect{out: domain + pattern, why: "no parameters to substitute"}
		}
		pp, cls := ref.Parse(pattern, nil) // non-strict: every rule is just a regexp that has to compile
		if cls != ref.SynOK {
			return urlExpect{err: true, why: "malformed: " + cls.String()}
		}
		out, ok := pp.Build(params)
		if !ok {
			return urlExpect{err: true, why: "missing parameter"}
		}
		return urlExpect{out: domain + out, why: "substitution"}
	}
	pp, cls := ref.Parse(pattern, ic)
	if cls != ref.SynOK {
		return urlExpect{err: true, why: "malformed: " + cls.String()}
	}
	if s.Live[pattern] == nil {
		return urlExpect{err: true, why: "not a live route"}
	}
	out, ok := pp.Build(params)
	if !ok {
		return urlExpect{err: true, why: "missing parameter"}
	}
	for i := range pp.Toks {
		t := &pp.Toks[i]
		if t.Kind != ref.KLit && !t.Accepts(params[t.Name], ic) {
			return urlExpect{err: true, why: fmt.Sprintf("value %q violates the constraint of %s", params[t.Name], t.Text)}
		}
	}
	return urlExpect{out: domain + out, why: "strict substitution"}
}

var malformedPatterns = []struct {
	p   string
	cls string
}{
	{"/a/{}/b", "empty-name"}, {"/a/{:\\d+}", "empty-name"}, {"{}", "empty-name"},
	{"/a/{id}{name}", "adjacent"}, {"{a}{b}/x", "adjacent"}, {`/x/{id:\d+}{y}/z`, "adjacent"},
	{"/a/{id}/{id}", "duplicate-name"}, {"{id}/x/{id}", "duplicate-name"}, {`{sub}.{zone}.example.com/{sub:\w+}`, "duplicate-name"}, {"{}/x", "empty-name"}, {"{a}{b}", "adjacent"}, {"/{id}/b/{-id}", "duplicate-name"}, {`/{n:\d+}/{n}`, "duplicate-name"},
	{"/a/{id:[}/b", "bad-regexp"}, {"/a/{id:(}", "bad-regexp"}, {`{x:\d+}/{y:*}`, "bad-regexp"},
}

func urlValue(r *ref.R, t *ref.Tok) string {
	switch r.Intn(8) {
	case 0:
		return ""
	case 1:
		return "abc5" // ends in an accepted text for \d+
	case 2:
		return "5abc"
	case 3:
		return string(r.Bytes(r.Range(1, 5)))
	case 4:
		return "7/8"
	default:
		return gen.Value(r, t, "")
	}
}

func runC10(c *Ctx) {
	r := c.R
	ics := gen.ICSets[r.Intn(len(gen.ICSets))]
	domain := ref.Pick(r, []string{"", "https://x.io", "https://x.io/", "//cdn/", "/"})
	wantDomain := strings.TrimSuffix(domain, "/")
	if domain == "/" {
		wantDomain = ""
	}
	var extra []mux.Option
	if domain != "" {
		extra = append(extra, mux.WithURLDomain(domain))
	}
	s := NewSys(ics, false, false, extra...)
	pool := gen.Hostile.Table(r, r.Range(6, 20))
	if r.Chance(1, 6) {
		// depth: routes that sit 17-26 nodes below the root - a chain of routes each extending the one before (every
		// registration splits off one more node), and one pattern with that many parameters
		deep := ""
		for i, n := 0, r.Range(17, 26); i < n; i++ {
			deep += "/" + string(rune('a'+i))
			if i%3 == 2 {
				deep += "{d" + string(rune('a'+i)) + "}"
			}
			pool = append(pool, deep)
			s.Handle(deep, []string{"GET"}, Via{})
		}
		many := "/dp"
		for i, n := 0, r.Range(17, 24); i < n; i++ {
			many += "/{q" + string(rune('a'+i)) + "}"
		}
		pool = append(pool, many)
		s.Handle(many, []string{"GET"}, Via{})
		c.Class("routes_more_than_sixteen_nodes_deep")
	}
	for i := r.Range(5, 25); i > 0; i-- {
		live := s.LivePatterns()
		if len(live) > 0 && r.Chance(1, 4) {
			p := ref.Pick(r, live)
			switch r.Intn(3) {
			case 0:
				s.Remove(p, Via{})
			case 1:
				s.Remove(p, Via{}, "GET")
			default: // every live method by name: the route dies, its node may stay as the prefix of others
				var ms []string
				for m := range s.Live[p].M {
					ms = append(ms, m)
				}
				sort.Strings(ms)
				for _, m := range ms {
					s.Remove(p, Via{}, m)
				}
				c.Class("route_emptied_by_method_removal")
			}
			continue
		}
		p := ref.Pick(r, pool)
		s.Handle(p, randomMethods(r, s), randomVia(r, p))
	}
	c.Class("icset_" + ics.Name)

	check := func(label string, strict bool, pattern string, params map[string]string, got string, err error, dom string, viaRouter bool) {
		c.Eval()
		var ic ref.Interceptors
		if viaRouter {
			ic = ics.Funcs
		}
		e := refURL(s, dom, strict, pattern, params, ic)
		if e.skip {
			c.Class("unjudged_nonstrict_empty_params")
			return
		}
		if c.WantSample("url") && strict && len(params) > 0 {
			c.Sample("url", map[string]any{"call": label, "strict": strict, "pattern": pattern, "params": fmtParams(params), "result": got, "error": fmt.Sprint(err), "model": e.why, "live": s.LivePatterns()})
		}
		bad := ""
		switch {
		case e.err && err == nil:
			bad = fmt.Sprintf("succeeded with %q although it must fail (%s)", got, e.why)
		case !e.err && err != nil:
			bad = fmt.Sprintf("failed (%v) although it must return %q (%s)", err, e.out, e.why)
		case !e.err && got != e.out:
			bad = fmt.Sprintf("returned %q, expected %q (%s)", got, e.out, e.why)
		}
		if bad != "" {
			c.Violate(fmt.Sprintf("%s(strict=%v, %q, %s) %s", label, strict, pattern, fmtParams(params), bad),
				map[string]any{"icset": ics.Name, "domain": domain, "live": s.LivePatterns()})
		}
	}

	var builtBefore []string // patterns for which a strict call succeeded earlier in this case
	for k := 0; k < 60 && !c.Violated(); k++ {
		if k%9 == 8 {
			// the table keeps changing between URL calls: a sibling that shares part of a segment splits nodes of live routes
			if live := s.LivePatterns(); len(live) > 0 && r.Bool() {
				p := gen.Hostile.Derive(r, ref.Pick(r, live))
				s.Handle(p, randomMethods(r, s), Via{})
			} else {
				p := ref.Pick(r, pool)
				s.Handle(p, randomMethods(r, s), Via{})
			}
			c.Class("registration_between_url_calls")
		}
		if k%9 == 4 {
			// ... and routes disappear between URL calls (by name, wholesale, through a facade): strict mode must notice
			if live := s.LivePatterns(); len(live) > 0 {
				p := ref.Pick(r, live)
				switch r.Intn(3) {
				case 0:
					s.Remove(p, randomVia(r, p))
				case 1:
					var ms []string
					for m := range s.Live[p].M {
						ms = append(ms, m)
					}
					sort.Strings(ms)
					s.Remove(p, Via{}, ms...)
				default:
					s.Remove(p, Via{Kind: 2})
				}
				c.Class("removal_between_url_calls")
			}
		}
		// choose a pattern class
		var pattern string
		live := s.LivePatterns()
		class := ""
		switch x := r.Intn(10); {
		case x < 1 && len(builtBefore) > 0:
			pattern, class = ref.Pick(r, builtBefore), "built-successfully-before"
		case x < 4 && len(live) > 0:
			pattern, class = ref.Pick(r, live), "live"
		case x < 6:
			pattern, class = ref.Pick(r, pool), "pool(maybe dead)"
		case x < 7 && len(live) > 0:
			// only a prefix of a live route
			p := ref.Pick(r, live)
			cut := r.Range(1, len(p))
			if !inToken(p, cut) && (cut == len(p) || utf8.RuneStart(p[cut])) { // patterns stay valid UTF-8 (see known finding non-utf8-literal-after-regexp)
				pattern, class = p[:cut], "prefix-of-live"
			} else {
				pattern, class = p, "live"
			}
		case x < 8:
			m := ref.Pick(r, malformedPatterns)
			pattern, class = m.p, "malformed-"+m.cls
		case x < 9:
			// one documented syntax error injected into a generated well-formed pattern (also at its very start)
			base := gen.Pattern(r)
			if len(live) > 0 && r.Bool() {
				base = ref.Pick(r, live)
			}
			mp, mcls := gen.Malform(r, base)
			pattern, class = mp, "malformed-"+mcls
		default:
			pattern, class = gen.Pattern(r), "fresh"
		}
		pp, cls := ref.Parse(pattern, ics.Funcs)
		params := map[string]string{}
		pclass := "all-present"
		if cls == ref.SynOK {
			for i := range pp.Toks {
				t := &pp.Toks[i]
				if t.Kind != ref.KLit {
					params[t.Name] = urlValue(r, t)
				}
			}
		} else {
			params = map[string]string{"id": "7", "name": "x", "a": "1", "b": "2", "n": "5", "x": "1", "y": "2"}
			// a value for every name that occurs textually, so that the syntax error is the only possible reason to fail
			for rest := pattern; ; {
				i := strings.IndexByte(rest, '{')
				if i < 0 {
					break
				}
				j := strings.IndexByte(rest[i:], '}')
				if j < 0 {
					break
				}
				name := strings.TrimPrefix(rest[i+1:i+j], "-")
				if k := strings.IndexByte(name, ':'); k >= 0 {
					name = name[:k]
				}
				if name != "" {
					params[name] = "7"
				}
				rest = rest[i+j+1:]
			}
		}
		switch r.Intn(6) {
		case 0:
			params = map[string]string{}
			pclass = "empty"
		case 1:
			for k := range params {
				delete(params, k)
				pclass = "one-missing"
				break
			}
		case 2:
			params["extra-key"] = "zz"
			pclass = "extras"
		}
		strict := r.Bool()
		c.Class("pattern_" + class)
		c.Class("params_" + pclass)
		got, err := mux.URL(pattern, params)
		check("mux.URL", false, pattern, params, got, err, "", false)
		got, err = s.R.URL(strict, pattern, params)
		check("Router.URL", strict, pattern, params, got, err, wantDomain, true)
		if strict && err == nil && len(builtBefore) < 30 {
			builtBefore = append(builtBefore, pattern)
		}
		if len(pattern) > 0 {
			cut := r.Intn(len(pattern) + 1)
			got, err = s.R.Prefix(pattern[:cut]).URL(strict, pattern[cut:], params)
			check("Prefix.URL", strict, pattern, params, got, err, wantDomain, true)
			got, err = s.R.Resource(pattern).URL(strict, params)
			check("Resource.URL", strict, pattern, params, got, err, wantDomain, true)
		}
		nontrivial := false
		if strict && cls == ref.SynOK {
			for i := range pp.Toks {
				t := &pp.Toks[i]
				if t.Kind == ref.KInter {
					nontrivial = true
				}
				if v, ok := params[t.Name]; ok && t.Kind == ref.KRegexp && !t.Accepts(v, ics.Funcs) && v != "" {
					nontrivial = true
					c.Class("strict_value_partly_violating")
				}
			}
		}
		if pclass == "empty" {
			nontrivial = true
		}
		if nontrivial {
			c.Nontrivial(fmt.Sprintf("%v|%s|%s|%v", s.LivePatterns(), pattern, fmtParams(params), strict))
		}
	}

	// round trip: every dispatched route without '-' parameters rebuilds the request path
	livePats := s.LiveParsed()
	for k := 0; k < 40 && !c.Violated(); k++ {
		path := gen.Path(r, livePats)
		if path == "" || path == "*" {
			continue
		}
		o := mon.Do(s.R, mon.Req{Method: "GET", Path: path})
		if o.Panicked || o.NodeNil || o.NilHandler {
			continue
		}
		e := s.Live[o.NodePattern]
		if e == nil || e.Pat.HasIgnored() {
			continue
		}
		c.Eval()
		c.Class("round_trip")
		got, err := mux.URL(o.NodePattern, o.Params)
		if err != nil || got != path {
			c.Violate(fmt.Sprintf("round trip: mux.URL(%q,%s)=%q,%v but the request path was %q", o.NodePattern, fmtParams(o.Params), got, err, path), nil)
		}
		for _, strict := range []bool{false, true} {
			got, err := s.R.URL(strict, o.NodePattern, o.Params)
			if err != nil || got != wantDomain+path {
				c.Violate(fmt.Sprintf("round trip: Router.URL(%v,%q,%s)=%q,%v but the request path was %q", strict, o.NodePattern, fmtParams(o.Params), got, err, path),
					map[string]any{"icset": ics.Name, "live": s.LivePatterns()})
			}
		}
	}
}

func c10Directed() []Directed {
	mk := func(id string, ics gen.ICSet, table []string, strict bool, pattern string, params map[string]string, wantErr bool, want string) Directed {
		return Directed{ID: id, Run: func(c *Ctx) {
			s := NewSys(ics, false, false)
			for _, p := range table {
				s.Handle(p, []string{"GET"}, Via{})
			}
			got, err := s.R.URL(strict, pattern, params)
			c.Eval()
			if (err != nil) != wantErr || (!wantErr && got != want) {
				c.Violate(fmt.Sprintf("Router.URL(%v,%q,%s) = %q,%v; expected %q err=%v", strict, pattern, fmtParams(params), got, err, want, wantErr), nil)
			}
		}}
	}
	return []Directed{
		mk("strict-interceptor-skipped", stdIC, []string{"/posts/{id:digit}/author"}, true, "/posts/{id:digit}/author", map[string]string{"id": "5"}, false, "/posts/5/author"),
		mk("strict-interceptor-rejects", stdIC, []string{"/posts/{id:digit}/author"}, true, "/posts/{id:digit}/author", map[string]string{"id": "x5"}, true, ""),
		mk("strict-unanchored-regexp", noneIC, []string{`/posts/{id:\d+}`}, true, `/posts/{id:\d+}`, map[string]string{"id": "abc5"}, true, ""),
		mk("strict-empty-params-unregistered", noneIC, []string{"/a"}, true, "/not/registered", nil, true, ""),
		mk("strict-prefix-node-is-no-route", noneIC, []string{"/posts/author", "/posts/abc"}, true, "/posts/a", map[string]string{"x": "1"}, true, ""),
		{ID: "non-utf8-literal-after-regexp", Run: func(c *Ctx) {
			c.Eval()
			got, err := mux.URL("/a/{d:\\d+}\xe4", map[string]string{"d": "5"})
			if err != nil || got != "/a/5\xe4" {
				c.Violate(fmt.Sprintf("mux.URL of a pattern whose literal text after a regexp parameter is not valid UTF-8: %q, %v", got, err), nil)
			}
		}},
		mk("nonstrict-literal-only", noneIC, nil, false, "/x/y", nil, false, "/x/y"),
		mk("nonstrict-ignore-flag", noneIC, nil, false, "/x/{-id}/y", map[string]string{"id": "9"}, false, "/x/9/y"),
	}
}

func init() {
	Register(&Engine{
		ID:       "C10",
		Anchors:  []string{"tree.go:URL", "syntax.go:Interceptors.URL", "segment.go:Segment.Valid", "router.go:URL", "mux.go:URL"},
		Cases:    func(t string) int { return map[string]int{"quick": 10000, "thorough": 600000}[t] },
		Run:      runC10,
		Directed: c10Directed,
		Rule: "case = router (random interceptor set and URL domain) with a table reached by a Handle/Remove history; 60 URL calls over pattern classes {live, dead, prefix-of-live, malformed x4, fresh} x params classes {all present, empty, one missing, extras} x tricky values x strict, through mux.URL, Router.URL, Prefix.URL, Resource.URL; plus 40 dispatches whose (pattern, captured params) must rebuild the request path; " +
			"non-trivial (distinct by table+pattern+params+mode) = strict call with an interceptor parameter or a value that violates a regexp constraint only in part, or empty params",
		Floors: func(t string) map[string]int64 {
			if t == "quick" {
				return map[string]int64{"round_trip": 1000, "strict_value_partly_violating": 300, "pattern_prefix-of-live": 500, "params_empty": 2000, "pattern_live": 5000}
			}
			return map[string]int64{"round_trip": 80000, "strict_value_partly_violating": 20000}
		},
		Assume: []string{"interceptor rule names of this engine are valid regexps (non-strict URL compiles every rule as a regexp by design)", "the empty pattern and stray braces in literals are not generated"},
	})
}
