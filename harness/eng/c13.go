package eng

import (
	"fmt"
	"net/http"
	"strings"

	"github.com/issue9/mux/v9"
	"github.com/issue9/mux/v9/types"

	"verifharness/mon"
	"verifharness/ref"
)

// C13: a Group dispatches to the first accepting router and rejections leave no trace.
// Matchers are an algebra with pure semantics; the Group's dispatch must equal
// what the chosen router alone observes for the request the matcher produced.

type mstate struct {
	path, host, accept string
	params             map[string]string
}

func (s mstate) clone() mstate {
	c := s
	c.params = map[string]string{}
	for k, v := range s.params {
		c.params[k] = v
	}
	return c
}

type mspec struct {
	kind     string // hosts, pathver, headerver, and, or, nil
	versions []string
	param    string
	domains  []string
	kids     []*mspec
	funcs    bool // built with AndMatcherFunc/OrMatcherFunc
}

func (m *mspec) String() string {
	switch m.kind {
	case "hosts":
		return fmt.Sprintf("Hosts%v", m.domains)
	case "pathver":
		return fmt.Sprintf("PathVersion(%q,%v)", m.param, m.versions)
	case "headerver":
		return fmt.Sprintf("HeaderVersion(%q,%v)", m.param, m.versions)
	case "and", "or":
		ks := make([]string, len(m.kids))
		for i, k := range m.kids {
			ks[i] = k.String()
		}
		name := m.kind
		if m.funcs {
			name += "Func"
		}
		return name + "(" + strings.Join(ks, ", ") + ")"
	}
	return "nil"
}

func (m *mspec) build() mux.Matcher {
	switch m.kind {
	case "hosts":
		return mux.NewHosts(false, m.domains...)
	case "pathver":
		return mux.NewPathVersion(m.param, append([]string(nil), m.versions...)...)
	case "headerver":
		return mux.NewHeaderVersion(m.param, "", func(error) {}, m.versions...)
	case "and", "or":
		var ks []mux.Matcher
		for _, k := range m.kids {
			if k.kind == "nil" { // nil is only meaningful as the argument of Add/New; inside a composite use an always-accepting matcher
				ks = append(ks, mux.MatcherFunc(func(*http.Request, *types.Context) bool { return true }))
				continue
			}
			ks = append(ks, k.build())
		}
		if m.funcs { // the ...Func constructors must behave like the interface ones
			fs := make([]func(*http.Request, *types.Context) bool, len(ks))
			for i, k := range ks {
				fs[i] = k.Match
			}
			if m.kind == "and" {
				return mux.AndMatcherFunc(fs...)
			}
			return mux.OrMatcherFunc(fs...)
		}
		if m.kind == "and" {
			return mux.AndMatcher(ks...)
		}
		return mux.OrMatcher(ks...)
	}
	return nil
}

// eval is the pure semantics: a rejecting member - at any depth - contributes nothing.
func (m *mspec) eval(st mstate, acceptedInside *bool) (bool, mstate) {
	switch m.kind {
	case "nil":
		return true, st
	case "hosts":
		rs := &ref.Resolver{Pats: parseAll(m.domains, nil)}
		outs := rs.Resolve(normHost(st.host))
		if len(outs) == 0 {
			return false, st
		}
		n := st.clone()
		for k, v := range outs[0].Params {
			n.params[k] = v
		}
		return true, n
	case "pathver":
		ok, np, val := refPathVersion(m.versions, st.path)
		if !ok {
			return false, st
		}
		n := st.clone()
		n.path = np
		if m.param != "" {
			n.params[m.param] = val
		}
		return true, n
	case "headerver":
		// generated Accept headers are "type/sub;version=V" or empty
		i := strings.Index(st.accept, "version=")
		if i < 0 || !contains(m.versions, st.accept[i+8:]) {
			return false, st
		}
		n := st.clone()
		if m.param != "" {
			n.params[m.param] = st.accept[i+8:]
		}
		return true, n
	case "and":
		cur := st
		for _, k := range m.kids {
			ok, n := k.eval(cur, acceptedInside)
			if !ok {
				if cur.path != st.path || len(cur.params) != len(st.params) {
					*acceptedInside = true
				}
				return false, st // the original state: nothing of the earlier members remains
			}
			cur = n
		}
		return true, cur
	case "or":
		for _, k := range m.kids {
			if ok, n := k.eval(st, acceptedInside); ok {
				return true, n
			}
		}
		return false, st
	}
	return false, st
}

func genMatcher(r *ref.R, depth int) *mspec {
	x := r.Intn(10)
	if depth >= 2 && x >= 6 {
		x = r.Intn(6)
	}
	switch {
	case x < 2:
		return &mspec{kind: "hosts", domains: ref.Pick(r, [][]string{{"a.com"}, {"b.com", "{sub}.example.com"}, {"a.com", "b.com"}, {"{sub}.example.com"}, {"::1", "b.com"}, {"fe80::1", "::1"}, {"über.example.com", "b.com"}, {"{sub}.example.com", "über.example.com"},
			// more than four sibling nodes: the domain tree switches to its first-byte index
			{"api.example.com", "api.example.net", "blog.example.com", "cdn.example.com", "docs.example.com", "mail.example.com", "{sub}.example.org"},
			{"{sub}.example.org", "api.example.org", "app.example.org", "b.com", "cdn.example.org", "docs.example.org", "a.com"}})}
	case x < 4:
		return &mspec{kind: "pathver", param: ref.Pick(r, []string{"pv", "", "ver"}), versions: ref.Pick(r, [][]string{{"v1"}, {"v2", "v1"}, {"v1/v1"}, {"v2"}, {"v1", "v2", "v10", "v11"}, {"v1", "v1beta", "v2"}, {"v10", "v1"},
			{"v1/beta", "v1"}, {"v2", "v1/beta", "v1"}})} // the first listed version that fits wins: the order of the list is part of the matcher
	case x < 5:
		return &mspec{kind: "headerver", param: ref.Pick(r, []string{"hv", "ver"}), versions: ref.Pick(r, [][]string{{"1"}, {"1", "2"}, {"2"}})}
	case x < 6:
		return &mspec{kind: "nil"}
	}
	m := &mspec{kind: "and", funcs: r.Chance(1, 3)}
	if x >= 8 {
		m.kind = "or"
	}
	for n := r.Range(2, 3); n > 0; n-- {
		m.kids = append(m.kids, genMatcher(r, depth+1))
	}
	return m
}

type grouter struct {
	name string
	r    *mux.Router[*mon.Hnd]
	m    *mspec
}

var c13Patterns = []string{"/x", "/{p}/y", "/v1/x", "/v1/{p}/y"}
var c13Hosts = []string{"a.com", "b.com", "x.example.com", "zz.org", "A.com:80", "[::1]", "[::1]:8080", "[FE80::1]", "b.com:", "Über.example.com", "über.example.com:8080", "ÄRZTE.Example.com", "api.example.org", "api.example.net", "blog.example.org", "apx.example.org", "www.example.org:443"}
var c13Paths = []string{"/x", "/v1/x", "/v2/x", "/v1/v1/x", "/7/y", "/v1/7/y", "/v2/v1/x", "/nothing", "/v1", "/v1/", "/v10/x", "/v11/7/y", "/v1beta/x", "/v10/v1/x", "/v111/x", "/v1/beta/x", "/v1/beta/7/y", "/v1/beta"}
var c13Accepts = []string{"", "application/json;version=1", "text/html;version=2", "a/b;version=3"}

// c13RouterKeepsItsMiddlewares: "exactly as that router alone would serve" includes what the router wraps its routes
// with. Routers of a group that already has middlewares, Use on each router and on the group, then a route registered on
// the first router and requested through the group.
func c13RouterKeepsItsMiddlewares(c *Ctx) {
	env := mon.NewEnv()
	env.RecordMW = false
	g := env.NewGroup()
	g.Use(env.MW("G"))
	r1 := g.New("api", mux.NewPathVersion("", "api"))
	r2 := g.New("web", mux.NewPathVersion("", "web"))
	r1.Use(env.MW("api-auth"))
	r2.Use(env.MW("web-log"))
	want := "api-auth>G"
	if c.Case%2 == 1 {
		g.Use(env.MW("G2"))
		want = "G2>api-auth>G"
	}
	r1.Handle("/p/{id}", env.NewHnd(mon.KRoute, "/p/{id}"), nil, "GET")
	o, tr := mon.DoTrace(g, mon.Req{Method: "GET", Path: "/api/p/7"})
	c.Eval()
	c.Class("router_middlewares_through_group")
	if got := strings.Join(tr, ">"); o.Panicked || o.RouterName != "api" || got != want {
		c.Violate(fmt.Sprintf("a route of router %q, requested through the group, ran the middlewares %q; the router alone wraps it with %q (outermost first)", "api", got, want), map[string]any{"observed": obsBrief(o)})
	}
}

func runC13(c *Ctx) {
	c13RouterKeepsItsMiddlewares(c)
	if c.Violated() {
		return
	}
	r := c.R
	env := mon.NewEnv()
	g := env.NewGroup()
	var routers []*grouter
	var gUse []string
	var ops []string
	seq := 0
	addRouter := func() {
		name := fmt.Sprintf("r%d", seq)
		seq++
		if len(routers) > 0 && r.Chance(1, 6) {
			// a taken name: Add/New must panic and leave the list unchanged
			name = ref.Pick(r, routers).name
			before := len(g.Routers())
			panicked := false
			func() {
				defer func() {
					if recover() != nil {
						panicked = true
					}
				}()
				switch r.Intn(3) {
				case 0:
					g.New(name, nil)
				case 1:
					g.Add(nil, env.NewRouter(name))
				default: // the very same router object again, with another matcher: rejected, and its matcher must stay what it was
					for _, gr := range routers {
						if gr.name == name {
							g.Add(genMatcher(r, 0).build(), gr.r)
						}
					}
				}
			}()
			c.Eval()
			if !panicked || len(g.Routers()) != before {
				c.Violate(fmt.Sprintf("adding a second router named %q: panicked=%v, routers %d -> %d", name, panicked, before, len(g.Routers())), map[string]any{"ops": ops})
			}
			c.Class("duplicate_name_rejected")
			return
		}
		m := genMatcher(r, 0)
		gr := &grouter{name: name, m: m}
		if r.Bool() {
			gr.r = g.New(name, m.build())
			ops = append(ops, fmt.Sprintf("Group.New(%s, %s)", name, m))
		} else {
			gr.r = env.NewRouter(name)
			g.Add(m.build(), gr.r)
			ops = append(ops, fmt.Sprintf("Group.Add(%s, %s)", name, m))
		}
		for _, p := range c13Patterns {
			if r.Chance(3, 4) {
				gr.r.Handle(p, env.NewHnd(mon.KRoute, p), nil, "GET")
			}
		}
		routers = append(routers, gr)
	}
	if r.Chance(1, 3) {
		// Use on a group that has no router yet: the not-found handler is wrapped all the same
		g.Use(env.MW("g-first"))
		gUse = append(gUse, "g-first")
		ops = append(ops, "Group.Use(g-first) on the empty group")
		c.Class("group_use_before_the_first_router")
		_, tr := mon.DoTrace(g, mon.Req{Method: "GET", Path: "/nobody/home"})
		if strings.Join(tr, ">") != "g-first" {
			c.Violate(fmt.Sprintf("empty group: the not-found handler ran the middlewares %q, the group was given [g-first]", strings.Join(tr, ">")), map[string]any{"ops": ops})
			return
		}
	}
	for n := r.Range(1, 5); n > 0; n-- {
		addRouter()
	}
	for step := 0; step < 6 && !c.Violated(); step++ {
		// a little history on the group
		switch r.Intn(6) {
		case 0:
			if len(routers) > 1 {
				i := r.Intn(len(routers))
				g.Remove(routers[i].name)
				ops = append(ops, "Group.Remove("+routers[i].name+")")
				routers = append(routers[:i:i], routers[i+1:]...)
				c.Class("group_remove")
			}
		case 1:
			name := fmt.Sprintf("g%d", step)
			g.Use(env.MW(name))
			gUse = append(gUse, name)
			ops = append(ops, "Group.Use("+name+")")
		case 2:
			if len(routers) < 6 {
				addRouter()
			}
		}
		for k := 0; k < 12 && !c.Violated(); k++ {
			st := mstate{path: ref.Pick(r, c13Paths), host: ref.Pick(r, c13Hosts), accept: ref.Pick(r, c13Accepts), params: map[string]string{}}
			q := mon.Req{Method: "GET", Path: st.path, Host: st.host}
			if st.accept != "" {
				q.Header = map[string]string{"Accept": st.accept}
			}
			// model: first router whose matcher accepts the request as originally received
			chosen := -1
			var after mstate
			inside := false
			for i, gr := range routers {
				if ok, n := gr.m.eval(st, &inside); ok {
					chosen, after = i, n
					break
				}
			}
			o, tr := mon.DoTrace(g, q)
			c.Eval()
			det := func(extra map[string]any) map[string]any {
				m := map[string]any{"ops": ops, "request": q.String(), "observed": obsBrief(o)}
				for i, gr := range routers {
					m[fmt.Sprintf("router[%d]", i)] = gr.name + ": " + gr.m.String()
				}
				for k, v := range extra {
					m[k] = v
				}
				return m
			}
			if o.Panicked || o.NilHandler {
				c.Violate("Group.ServeHTTP panicked or dispatched a nil handler", det(nil))
				return
			}
			if inside {
				c.Class("member_accepted_inside_rejecting_composite")
				c.Nontrivial(strings.Join(ops, ";") + "|" + q.String())
			}
			if chosen < 0 {
				c.Class("no_router_accepts")
				if o.H.Base.Kind != mon.KGroup404 || o.RouterName != "" {
					c.Violate("no router accepts the request, yet it was not answered by the group's not-found handler", det(nil))
				} else if strings.Join(tr, ">") != strings.Join(reversed(gUse), ">") {
					c.Violate(fmt.Sprintf("group not-found handler ran chain %v, expected %v", tr, reversed(gUse)), det(nil))
				} else if len(o.Params) != 0 {
					c.Violate("group not-found handler sees parameters of rejecting matchers", det(nil))
				}
				continue
			}
			c.Class(fmt.Sprintf("chosen_router_index_%d", min(chosen, 3)))
			gr := routers[chosen]
			// what the chosen router alone observes for the request the matcher produced
			alone := mon.Do(gr.r, mon.Req{Method: "GET", Path: after.path, Host: st.host, Header: q.Header})
			wantParams := map[string]string{}
			for k, v := range alone.Params {
				wantParams[k] = v
			}
			for k, v := range after.params {
				if _, clash := wantParams[k]; !clash {
					wantParams[k] = v
				}
			}
			switch {
			case o.RouterName != gr.name:
				c.Violate(fmt.Sprintf("served by router %q, the first accepting router is %q", o.RouterName, gr.name), det(map[string]any{"expected_path": after.path}))
			case o.Path != after.path:
				c.Violate(fmt.Sprintf("router saw path %q, its matcher produces %q from the original request", o.Path, after.path), det(nil))
			case o.H.Base != alone.H.Base || o.Status != alone.Status || o.NodePattern != alone.NodePattern:
				c.Violate("group dispatch differs from what the chosen router alone does with the rewritten request", det(map[string]any{"alone": obsBrief(alone)}))
			case fmtParams(o.Params) != fmtParams(wantParams):
				c.Violate(fmt.Sprintf("parameters %s, expected router's plus matcher's %s", fmtParams(o.Params), fmtParams(wantParams)), det(map[string]any{"alone": obsBrief(alone)}))
			}
		}
	}
	if c.WantSample("group") {
		c.Sample("group", ops)
	}
}

func c13Directed() []Directed {
	return []Directed{{ID: "and-rejects-after-path-version-stripped", Run: func(c *Ctx) {
		env := mon.NewEnv()
		g := env.NewGroup()
		r1 := g.New("r1", mux.AndMatcher(mux.NewPathVersion("v", "v1"), mux.NewHosts(false, "a.com")))
		r1.Handle("/x", env.NewHnd(mon.KRoute, "/x"), nil, "GET")
		r2 := g.New("r2", mux.NewPathVersion("v", "v1"))
		h2 := env.NewHnd(mon.KRoute, "/x")
		r2.Handle("/x", h2, nil, "GET")
		o := mon.Do(g, mon.Req{Method: "GET", Path: "/v1/x", Host: "b.com"})
		c.Eval()
		if o.H == nil || o.H.Base != h2 || o.RouterName != "r2" || o.Path != "/x" || fmtParams(o.Params) != `{v:"/v1"}` {
			c.Violate("And(PathVersion v1, Hosts a.com) rejected b.com/v1/x but left the path stripped: the next router (PathVersion v1) did not serve it", obsBrief(o))
		}
	}}}
}

func init() {
	Register(&Engine{
		ID:       "C13",
		Anchors:  []string{"group.go:ServeHTTP", "match.go:AndMatcher", "match.go:OrMatcher", "match.go:restoreMatch", "group.go:Remove", "group.go:Add", "group.go:New"},
		Cases:    func(t string) int { return map[string]int{"quick": 40000, "thorough": 2000000}[t] },
		Run:      runC13,
		Directed: c13Directed,
		Rule: "case = group of 1-6 routers whose matchers are random terms (depth <= 3) over Hosts, PathVersion, HeaderVersion, And, Or, nil, created by New or Add, with Remove/Use/duplicate-name steps in between; 6 x 12 requests (hosts x paths with repeated version segments x Accept headers); the model picks the first router whose matcher accepts the original request and the rewritten request, which is then sent to that router alone for comparison; " +
			"non-trivial (distinct by history+request) = a member accepted inside a composite matcher that finally rejected",
		Floors: func(t string) map[string]int64 {
			if t == "quick" {
				return map[string]int64{"member_accepted_inside_rejecting_composite": 1500, "no_router_accepts": 1500, "chosen_router_index_1": 1500, "chosen_router_index_2": 500, "group_remove": 100, "duplicate_name_rejected": 100}
			}
			return map[string]int64{"member_accepted_inside_rejecting_composite": 120000, "no_router_accepts": 120000}
		},
		Assume: []string{"generated Accept headers are type/subtype;version=V", "domain sets of generated Hosts matchers resolve unambiguously"},
	})
}
