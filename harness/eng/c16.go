package eng

import (
	"errors"
	"fmt"
	"net/http"
	"runtime"

	"github.com/issue9/mux/v9"
	"github.com/issue9/mux/v9/types"

	"verifharness/mon"
	"verifharness/ref"
)

// C16: configured recovery contains every panic; without it panics pass through.
// Faults are injected only where user code runs. The site x value x container x
// option product is enumerated completely in every case; random sequences follow.

type customPanic struct {
	Code int
	Msg  string
}

var errInjected = errors.New("injected error value")

type panicValue struct {
	name    string
	value   any // nil => produce a genuine runtime.Error inside the handler
	runtime bool
}

var panicValues = []panicValue{
	{name: "string", value: "boom"},
	{name: "error", value: errInjected},
	{name: "struct", value: customPanic{7, "x"}},
	{name: "runtime.Error", runtime: true},
	{name: "http.ErrAbortHandler", value: http.ErrAbortHandler},
}

type recRecorder struct {
	calls int
	vals  []any
}

// c16World is one container with all handles needed to inject faults.
type c16World struct {
	kind       string // router, group-add, group-new
	label      string // the container as enumerated (group-new-extra is judged like group-new)
	opt        bool
	env        *mon.Env
	serve      http.Handler
	routerRec  *recRecorder
	groupRec   *recRecorder
	routeH     *mon.Hnd
	optH, m405 *mon.Hnd
	rootOpt    *mon.Hnd // the OPTIONS * handler
	buildFault string
	nf, trace  *mon.Hnd
	g404       *mon.Hnd
	prefix     string // path prefix that reaches the router
	nested     *mux.Router[*mon.Hnd]
	nestedSaw  string
}

func buildC16(kind string, opt bool) *c16World {
	w := &c16World{kind: kind, opt: opt, env: mon.NewEnv(), routerRec: &recRecorder{}, groupRec: &recRecorder{}}
	w.env.RecordMW = false
	recOpt := func(rr *recRecorder) mux.Option {
		return mux.WithRecovery(func(rw http.ResponseWriter, v any) {
			rr.calls++
			rr.vals = append(rr.vals, v)
			rw.WriteHeader(500)
		})
	}
	w.trace = w.env.NewHnd(mon.KTrace, "")
	var r *mux.Router[*mon.Hnd]
	switch kind {
	case "router":
		o := []mux.Option{mux.WithTrace(w.trace)}
		if opt {
			o = append(o, recOpt(w.routerRec))
		}
		r = w.env.NewRouter("r", o...)
		w.serve = r
	case "router-nil-last": // "the last one wins": a recovery option followed by WithRecovery(nil) leaves the router without recovery
		o := []mux.Option{mux.WithTrace(w.trace), recOpt(w.routerRec), mux.WithRecovery(nil)}
		r = w.env.NewRouter("r", o...)
		w.serve = r
		w.kind, w.label, w.opt = "router", kind, false
	case "router-in-recovering-group":
		// a router without the option stays a router without the option: added to a group that has a recovery function (and,
		// in the second shape, removed from it again), then served directly - the panic reaches the caller
		g := w.env.NewGroup(recOpt(w.groupRec))
		r = w.env.NewRouter("r", mux.WithTrace(w.trace))
		g.Add(mux.NewPathVersion("", "api"), r)
		if opt {
			g.Remove("r")
		}
		w.serve = r
		w.kind, w.label, w.opt = "router", kind, false
	case "group-new-nil-last-direct":
		// the options given to Group.New come after the group's: WithRecovery(nil) there switches recovery off for that router
		g := w.env.NewGroup(mux.WithTrace(w.trace), recOpt(w.groupRec))
		r = g.New("r", mux.NewPathVersion("", "api"), mux.WithRecovery(nil))
		w.serve = r
		w.kind, w.label, w.opt = "router", kind, false
	case "group-add": // the group has no recovery; the added router brings its own
		g := w.env.NewGroup()
		o := []mux.Option{mux.WithTrace(w.trace)}
		if opt {
			o = append(o, recOpt(w.routerRec))
		}
		r = w.env.NewRouter("r", o...)
		g.Add(mux.NewPathVersion("", "api"), r)
		w.serve, w.g404, w.prefix = g, w.env.Group404, "/api"
	case "group-rec-add": // group and added router each have their own recovery function (or neither has)
		var go_ []mux.Option
		o := []mux.Option{mux.WithTrace(w.trace)}
		if opt {
			go_ = append(go_, recOpt(w.groupRec))
			o = append(o, recOpt(w.routerRec))
		}
		g := w.env.NewGroup(go_...)
		r = w.env.NewRouter("r", o...)
		g.Add(mux.NewPathVersion("", "api"), r)
		w.serve, w.g404, w.prefix = g, w.env.Group404, "/api"
	case "group-new", "group-new-extra", "group-new-many": // the router inherits the group's recovery option (also when it brings unrelated options of its own)
		// the option list of the group is a list of the caller with spare capacity; a second list of the caller extends it
		// by a recovery option for a stand-alone "witness" router that is built after Group.New has run
		o := make([]mux.Option, 0, 8)
		o = append(o, mux.WithTrace(w.trace))
		if kind == "group-new-many" {
			// a long option list: the recovery option is the tenth of the group, and Group.New brings three more
			o = append(o, mux.WithLock(false), mux.WithURLDomain("https://many.example"), mux.WithDenyCORS(), mux.WithAnyInterceptor("any-m"), mux.WithDigitInterceptor("digit-m"),
				mux.WithWordInterceptor("word-m"), mux.WithInterceptor(func(string) bool { return true }, "all-m"), mux.WithLock(false))
		}
		if opt {
			o = append(o, recOpt(w.groupRec))
		}
		witnessRec := &recRecorder{}
		derived := append(o, recOpt(witnessRec))
		g := w.env.NewGroup(o...)
		if kind == "group-new-extra" || kind == "group-new-many" {
			r = g.New("r", mux.NewPathVersion("", "api"), mux.WithURLDomain("https://u.example"), mux.WithLock(true), mux.WithAllowedCORS(60))
		} else {
			r = g.New("r", mux.NewPathVersion("", "api"))
		}
		w.kind, w.label = "group-new", kind
		wenv := mon.NewEnv()
		witness := wenv.NewRouter("witness", derived...)
		wh := wenv.NewHnd(mon.KRoute, "/w")
		wh.Panic = &mon.PanicSpec{Value: "witness panics"}
		witness.Handle("/w", wh, nil, "GET")
		if o := mon.Do(witness, mon.Req{Method: "GET", Path: "/w"}); o.Panicked || witnessRec.calls != 1 {
			w.buildFault = fmt.Sprintf("a stand-alone router built from the caller's second option list (the group's list plus a recovery option) after Group.New ran: panic escaped=%v, its recovery function ran %d times - Group.New wrote into the caller's option list", o.Panicked, witnessRec.calls)
		}
		w.routerRec = w.groupRec
		w.serve, w.g404, w.prefix = g, w.env.Group404, "/api"
	}
	for _, b := range w.env.Builders {
		if b.Kind == mon.KOptions && b.Pattern == "" {
			w.rootOpt = b.H
		}
	}
	w.nf = w.env.NotFoundOf["r"]
	if w.nf == nil { // a router made by Group.New answers 404 with the group's (unwrapped) not-found handler
		w.nf = w.env.Group404
	}
	r.Use(w.env.MW("use"))
	nb := len(w.env.Builders)
	w.routeH = w.env.NewHnd(mon.KRoute, "/p/{id}")
	r.Prefix("/p", w.env.MW("pfx")).Handle("/{id}", w.routeH, []muxMW{w.env.MW("reg")}, "GET", "POST")
	for _, b := range w.env.Builders[nb:] {
		if b.Kind == mon.KOptions {
			w.optH = b.H
		} else {
			w.m405 = b.H
		}
	}
	// /nest/{id}: the handler serves an inner router and afterwards reads its own parameters again
	inner := mon.NewEnv()
	w.nested = inner.NewRouter("inner")
	w.nested.Handle("/in/{x}", inner.NewHnd(mon.KRoute, "/in/{x}"), nil, "GET")
	nh := w.env.NewHnd(mon.KRoute, "/nest/{id}")
	var outer types.Route
	w.env.OnCallRoute = func(rt types.Route, h *mon.Hnd) {
		if h != nil && h.Base == nh {
			outer = rt
		}
	}
	nh.Run = func(rw http.ResponseWriter, rq *http.Request, _ *mon.Hnd) {
		mon.Do(w.nested, mon.Req{Method: "GET", Path: "/in/5"}) // takes another context from the pool while ours is in use
		m := map[string]string{}
		outer.Params().Range(func(k, v string) { m[k] = v })
		w.nestedSaw = fmtParams(m)
		rw.WriteHeader(200)
	}
	r.Handle("/nest/{id}", nh, nil, "GET")
	// /hd/{id}: a handler with its own status, header and body, asked for with HEAD after every fault
	hd := w.env.NewHnd(mon.KRoute, "/hd/{id}")
	hd.Prog = &mon.Prog{Steps: []mon.Step{{Op: "set", Key: "X-Later", Val: "yes"}, {Op: "write", N: 5}}}
	r.Handle("/hd/{id}", hd, nil, "GET")
	hs := w.env.NewHnd(mon.KRoute, "/hs/{id}")
	hs.Prog = &mon.Prog{Steps: []mon.Step{{Op: "set", Key: "X-Later", Val: "yes"}, {Op: "status", Code: 201}, {Op: "write", N: 5}}}
	r.Handle("/hs/{id}", hs, nil, "GET")
	return w
}

type c16Site struct {
	name   string
	method string
	path   string // relative to the router
	group  bool   // served by the group's own not-found handler
	target func(w *c16World) *mon.Hnd
	layer  string
	after  bool
	inCall bool
	writes bool // the user function sets a header, sends a status and body bytes before it panics
	root   bool // asterisk-form / empty request target: only a stand-alone router sees it (a group's matchers look at the path)
}

func c16Sites() []c16Site {
	route := func(w *c16World) *mon.Hnd { return w.routeH }
	s := []c16Site{
		{name: "route handler GET", method: "GET", path: "/p/7", target: route},
		{name: "route handler POST", method: "POST", path: "/p/7", target: route},
		{name: "automatic HEAD", method: "HEAD", path: "/p/7", target: route},
		{name: "route handler GET after writing", method: "GET", path: "/p/7", target: route, writes: true},
		{name: "automatic HEAD after writing", method: "HEAD", path: "/p/7", target: route, writes: true},
		{name: "OPTIONS handler", method: "OPTIONS", path: "/p/7", target: func(w *c16World) *mon.Hnd { return w.optH }},
		{name: "405 handler", method: "PUT", path: "/p/7", target: func(w *c16World) *mon.Hnd { return w.m405 }},
		{name: "404 handler", method: "GET", path: "/zzz", target: func(w *c16World) *mon.Hnd { return w.nf }},
		{name: "TRACE handler", method: "TRACE", path: "/p/7", target: func(w *c16World) *mon.Hnd { return w.trace }},
		{name: "CallFunc", method: "GET", path: "/p/7", inCall: true},
		{name: "OPTIONS * handler", method: "OPTIONS", path: "*", root: true, target: func(w *c16World) *mon.Hnd { return w.rootOpt }},
		{name: "OPTIONS handler for the empty request target", method: "OPTIONS", path: "", root: true, target: func(w *c16World) *mon.Hnd { return w.rootOpt }},
		{name: "404 handler for GET *", method: "GET", path: "*", root: true, target: func(w *c16World) *mon.Hnd { return w.nf }},
		{name: "TRACE handler for TRACE *", method: "TRACE", path: "*", root: true, target: func(w *c16World) *mon.Hnd { return w.trace }},
		{name: "CallFunc for the empty request target", method: "GET", path: "", root: true, inCall: true},
		{name: "group not-found", method: "GET", path: "/outside", group: true, target: func(w *c16World) *mon.Hnd { return w.g404 }},
		{name: "CallFunc for group not-found", method: "GET", path: "/outside", group: true, inCall: true},
	}
	for _, l := range []string{"use", "pfx", "reg"} {
		for _, after := range []bool{false, true} {
			when := "before next"
			if after {
				when = "after next"
			}
			s = append(s, c16Site{name: "middleware " + l + " " + when, method: "GET", path: "/p/7", target: route, layer: l, after: after})
		}
	}
	return s
}

func sameValue(pv panicValue, got any) bool {
	if pv.runtime {
		re, ok := got.(runtime.Error)
		return ok && re.Error() == "assignment to entry in nil map"
	}
	if e, ok := pv.value.(error); ok {
		ge, ok2 := got.(error)
		return ok2 && (ge == e || errors.Is(ge, e)) && got == pv.value
	}
	return got == pv.value
}

// inject performs one faulty request and checks the C16 oracle.
func (w *c16World) inject(c *Ctx, site c16Site, pv panicValue) {
	if site.group && w.g404 == nil {
		return
	}
	if site.root && (w.g404 != nil || w.rootOpt == nil) {
		return
	}
	path := w.prefix + site.path
	if site.group {
		path = site.path
	}
	// arm
	var armed *mon.Hnd
	raise := func() {
		if pv.runtime {
			var m map[string]int
			m["x"] = 1
		}
		panic(pv.value)
	}
	if site.inCall {
		w.env.OnCall = raise
	} else {
		armed = site.target(w)
		spec := &mon.PanicSpec{Value: pv.value, Layer: site.layer, After: site.after}
		if pv.runtime {
			// a genuine runtime fault raised inside the user function
			armed.Run = func(http.ResponseWriter, *http.Request, *mon.Hnd) { raise() }
			if site.layer != "" {
				spec.Value = nil
				armed.Run = nil
				spec = &mon.PanicSpec{Layer: site.layer, After: site.after, Value: runtimeFault()}
			} else {
				spec = nil
			}
		}
		armed.Panic = spec
		if site.writes {
			armed.Panic = nil
			armed.Run = func(rw http.ResponseWriter, _ *http.Request, _ *mon.Hnd) {
				rw.Header().Set("X-Poison", "1")
				rw.WriteHeader(202)
				rw.Write([]byte("abc"))
				raise()
			}
		}
	}
	wr, wg := w.routerRec.calls, w.groupRec.calls
	o := mon.Do(w.serve, mon.Req{Method: site.method, Path: path})
	// disarm
	w.env.OnCall = nil
	if armed != nil {
		armed.Panic, armed.Run = nil, nil
	}
	c.Eval()
	rec := w.routerRec
	expectRecovered := w.opt
	if site.group {
		rec = w.groupRec
		expectRecovered = w.opt && (w.kind == "group-new" || w.kind == "group-rec-add")
	}
	newCalls := (w.routerRec.calls - wr) + (w.groupRec.calls - wg)
	if w.kind == "group-new" { // one shared recorder
		newCalls = w.groupRec.calls - wg
	}
	det := map[string]any{"container": ifEmpty(w.label, w.kind), "recovery_option": w.opt, "site": site.name, "value": pv.name, "request": site.method + " " + path,
		"escaped": o.Panicked, "escaped_value": fmt.Sprint(o.Panic), "recover_calls": newCalls}
	pvCheck := pv
	if pv.runtime && site.layer != "" {
		pvCheck = panicValue{name: "runtime.Error", value: runtimeFault()}
	}
	switch {
	case expectRecovered && o.Panicked:
		c.Violate("panic escaped ServeHTTP although recovery is configured", det)
	case expectRecovered && newCalls != 1:
		c.Violate(fmt.Sprintf("recovery function called %d times, expected exactly once", newCalls), det)
	case expectRecovered && !sameValue(pvCheck, rec.vals[len(rec.vals)-1]):
		c.Violate(fmt.Sprintf("recovery function received %v, not the original panic value", rec.vals[len(rec.vals)-1]), det)
	case !expectRecovered && !o.Panicked:
		c.Violate("no recovery configured for this path, yet the panic did not reach the caller of ServeHTTP", det)
	case !expectRecovered && !sameValue(pvCheck, o.Panic):
		c.Violate(fmt.Sprintf("the caller received %v, not the original panic value", o.Panic), det)
	case !expectRecovered && newCalls != 0:
		c.Violate("a recovery function ran although the panic was passed through", det)
	}
	if c.WantSample("fault") && site.layer != "" {
		c.Sample("fault", det)
	}
	if expectRecovered {
		c.Class("recovered")
	} else {
		c.Class("passed_through")
	}
	// the request context went back to the pool exactly once: two contexts taken now are distinct objects
	a, b := types.NewContext(), types.NewContext()
	if a == b {
		c.Violate("after the panic the context pool hands out the same context twice (returned to the pool twice)", det)
	}
	a.Destroy()
	b.Destroy()
	// a handler that serves another router while it is running keeps its own route data
	if w.nested != nil {
		n := mon.Do(w.serve, mon.Req{Method: "GET", Path: w.prefix + "/nest/77"})
		if n.Panicked || w.nestedSaw != `{id:"77"}` {
			c.Violate("after the panic a handler that serves a nested router sees foreign route data: "+w.nestedSaw, det)
		}
	}
	// later requests are served normally, with clean parameters
	id := fmt.Sprint(100 + c.R.Intn(900))
	n := mon.Do(w.serve, mon.Req{Method: "GET", Path: w.prefix + "/p/" + id})
	if n.Panicked || n.H == nil || n.H.Base != w.routeH || n.Status != 200 || len(n.Params) != 1 || n.Params["id"] != id {
		c.Violate("a normal request after the panic is not served normally", map[string]any{"after": det, "observed": obsBrief(n)})
	}
	// ... also through the automatic HEAD: status, header and Content-Length of that handler alone, no body
	n = mon.Do(w.serve, mon.Req{Method: "HEAD", Path: w.prefix + "/hd/9"})
	if n.Panicked || n.Status != 200 || n.Header.Get("X-Later") != "yes" || n.Header.Get("Content-Length") != "5" || len(n.Body) != 0 {
		c.Violate("a HEAD request after the panic is not answered like the handler's GET (status 200, X-Later, Content-Length 5 for the implicit header, no body)", map[string]any{"after": det, "observed": obsBrief(n), "content_length": n.Header.Get("Content-Length"), "x_later": n.Header.Get("X-Later")})
	}
	n = mon.Do(w.serve, mon.Req{Method: "HEAD", Path: w.prefix + "/hs/9"})
	if n.Panicked || n.Status != 201 || n.Header.Get("X-Later") != "yes" || len(n.Body) != 0 {
		c.Violate("a HEAD request after the panic is not answered like the handler's GET (status 201, X-Later, no body)", map[string]any{"after": det, "observed": obsBrief(n), "x_later": n.Header.Get("X-Later")})
	}
	n = mon.Do(w.serve, mon.Req{Method: "GET", Path: w.prefix + "/not/there"})
	if n.Panicked || n.Status != 404 || len(n.Params) != 0 {
		c.Violate("a 404 after the panic carries parameters or fails", map[string]any{"after": det, "observed": obsBrief(n)})
	}
}

var rtFault any

// runtimeFault returns a genuine runtime.Error value (nil map write), produced once.
func runtimeFault() any {
	if rtFault == nil {
		func() {
			defer func() { rtFault = recover() }()
			var m map[string]int
			m["x"] = 1
		}()
	}
	return rtFault
}

func runC16(c *Ctx) {
	sites := c16Sites()
	n := 0
	for _, kind := range []string{"router", "router-nil-last", "group-add", "group-rec-add", "group-new", "group-new-extra", "group-new-many", "router-in-recovering-group", "group-new-nil-last-direct"} {
		for _, opt := range []bool{true, false} {
			w := buildC16(kind, opt)
			if w.buildFault != "" {
				c.Violate(w.buildFault, map[string]any{"container": kind})
				return
			}
			for _, s := range sites {
				for _, pv := range panicValues {
					if s.group && w.g404 == nil {
						continue
					}
					w.inject(c, s, pv)
					n++
					if c.Violated() {
						return
					}
					c.Nontrivial(fmt.Sprintf("%s|%v|%s|%s", kind, opt, s.name, pv.name))
				}
			}
		}
	}
	c.ClassN("product_combinations_enumerated", n)
	// random sequences mixing panicking and normal requests (pool reuse after recovery)
	r := c.R
	w := buildC16(ref.Pick(r, []string{"router", "router-nil-last", "group-add", "group-rec-add", "group-new", "group-new-extra", "group-new-many", "router-in-recovering-group", "group-new-nil-last-direct"}), r.Chance(3, 4))
	for k := 0; k < 60 && !c.Violated(); k++ {
		if r.Chance(1, 3) {
			id := fmt.Sprint(r.Intn(1000))
			o := mon.Do(w.serve, mon.Req{Method: ref.Pick(r, []string{"GET", "POST", "HEAD"}), Path: w.prefix + "/p/" + id})
			c.Eval()
			if o.Panicked || o.H == nil || o.H.Base != w.routeH || o.Params["id"] != id || len(o.Params) != 1 {
				c.Violate("normal request inside a random fault sequence not served normally", obsBrief(o))
			}
			continue
		}
		w.inject(c, ref.Pick(r, sites), ref.Pick(r, panicValues))
		c.Class("random_sequence_fault")
	}
}

func init() {
	Register(&Engine{
		ID:         "C16",
		Anchors:    []string{"router.go:serveContext", "group.go:ServeHTTP", "options.go:WithRecovery"},
		Level:      "fault_enumeration",
		Cases:      func(t string) int { return map[string]int{"quick": 1000, "thorough": 40000}[t] },
		Run:        runC16,
		Exhaustive: true,
		Rule: "every case enumerates the complete product: 23 panic sites (route handler per method, automatic HEAD, the asterisk-form and empty request targets on a stand-alone router (OPTIONS *, GET *, TRACE *, empty path), GET and HEAD handlers that write a header, a status and body bytes before panicking, OPTIONS, 405, 404, TRACE, each middleware layer Use/prefix/registration before and after next, CallFunc, group not-found, CallFunc for group not-found) x 5 panic values (string, error, struct, genuine runtime.Error, http.ErrAbortHandler) x 9 containers (Router, a router whose recovery option is followed by WithRecovery(nil) - documented \"the last one wins\", so none -, Group+Add-ed router with its own recovery, a group with a recovery function plus an Add-ed router with another one, Group.New router inheriting the group's option, the same with unrelated options of its own, the same with the recovery option as the tenth of thirteen options, a router without the option that is or was a member of a recovering group and is served directly, a Group.New router whose own WithRecovery(nil) comes after the group's option, served directly) x recovery on/off; after every fault a normal request and a 404 are checked; then a random sequence of 60 faulty/normal requests; " +
			"non-trivial (distinct) = every (container, option, site, value) combination",
		Floors: func(t string) map[string]int64 {
			return map[string]int64{"recovered": 200, "passed_through": 200, "product_combinations_enumerated": 400, "random_sequence_fault": 100}
		},
		Assume: []string{"faults are injected only where user-supplied functions run; exhaustive refers to the site x value x container x option product"},
	})
}
