// Package eng holds the workload engines and monitors, one per property.
package eng

import (
	"encoding/binary"
	"encoding/json"
	"fmt"
	"os"
	"runtime/debug"
	"sort"
	"strings"

	"github.com/issue9/mux/v9"
	"github.com/issue9/mux/v9/types"

	"verifharness/mon"
	"verifharness/ref"
)

// Engine describes one property check.
type Engine struct {
	ID         string
	Cases      func(tier string) int // number of generated cases for the tier
	Directed   func() []Directed     // committed hand-written cases (run first)
	Run        func(c *Ctx)          // one generated case; c.R is its PRNG
	Rule       string
	Floors     func(tier string) map[string]int64                // class (or "distinct_nontrivial") -> minimum; below => inconclusive
	Finish     func(res *Result)                                 // end of a shard (child side)
	Post       func(res *Result, work, tier string, seed uint64) // after the merge (parent side)
	Assume     []string
	Level      string // evidence level (default exploration)
	Race       bool   // needs the -race build (vstress)
	Exhaustive bool
	Shards     func(tier string) int
	Anchors    []string // functions of mux the workload must enter ("file.go:Func"), checked by the coverage probe
}

// Directed is a hand-written case with a stable id (known findings refer to it).
type Directed struct {
	ID  string
	Run func(c *Ctx)
}

var Engines = map[string]*Engine{}

func Register(e *Engine) { Engines[e.ID] = e }

type Violation struct {
	Prop     string `json:"property"`
	Seed     uint64 `json:"seed"`
	Tier     string `json:"tier"`
	Case     int    `json:"case"`               // index of the generated case, -1 for directed
	Directed string `json:"directed,omitempty"` // id of the directed case
	Msg      string `json:"msg"`
	Detail   any    `json:"detail,omitempty"`
}

// Ctx is handed to a case; it carries the PRNG and collects what the monitor saw.
type Ctx struct {
	R        *ref.R
	Prop     string
	Tier     string
	Seed     uint64
	Case     int
	Directed string
	Verbose  bool
	res      *Result
	violated bool
}

// Result is the merged outcome of a run (or of one shard).
type Result struct {
	Prop        string           `json:"prop"`
	Cases       int64            `json:"cases"`
	Evaluations int64            `json:"evaluations"`
	Classes     map[string]int64 `json:"classes"`
	Events      map[string]int64 `json:"events"`
	Samples     []any            `json:"samples"`
	Violations  []Violation      `json:"violations"`
	Extra       map[string]any   `json:"extra,omitempty"`
	Abort       bool             `json:"abort,omitempty"` // the process cannot go on (goroutines of a stalled case were left behind): the shard ends after this case
	distinct    map[uint64]struct{}
	sampleSeen  map[string]int
}

func NewResult(prop string) *Result {
	return &Result{Prop: prop, Classes: map[string]int64{}, Events: map[string]int64{},
		distinct: map[uint64]struct{}{}, sampleSeen: map[string]int{}, Extra: map[string]any{}}
}

const distinctCap = 400000

// Eval counts one oracle evaluation.
func (c *Ctx) Eval() { c.res.Evaluations++ }

func (c *Ctx) EvalN(n int) { c.res.Evaluations += int64(n) }

// Nontrivial registers a case that is non-trivial by the property's rule; key
// is its canonical rendering (distinctness is counted on its hash).
func (c *Ctx) Nontrivial(key string) {
	if len(c.res.distinct) < distinctCap {
		c.res.distinct[ref.Hash64(key)] = struct{}{}
	}
}

// Class counts an occurrence of a behaviour/generator class.
func (c *Ctx) Class(name string) { c.res.Classes[name]++ }

func (c *Ctx) ClassN(name string, n int) { c.res.Classes[name] += int64(n) }

func (c *Ctx) Event(name string) { c.res.Events[name]++ }

func (c *Ctx) EventN(name string, n int64) { c.res.Events[name] += n }

// Sample keeps up to 3 examples per sample class.
func (c *Ctx) Sample(class string, v any) {
	if c.res.sampleSeen[class] >= 2 {
		return
	}
	c.res.sampleSeen[class]++
	c.res.Samples = append(c.res.Samples, map[string]any{"class": class, "case": c.Case, "value": v})
}

func (c *Ctx) WantSample(class string) bool { return c.res.sampleSeen[class] < 2 }

// Violate records a refuting observation.
func (c *Ctx) Violate(msg string, detail any) {
	if c.violated && len(c.res.Violations) > 50 {
		return
	}
	c.violated = true
	c.res.Violations = append(c.res.Violations, Violation{Prop: c.Prop, Seed: c.Seed, Tier: c.Tier, Case: c.Case,
		Directed: c.Directed, Msg: msg, Detail: detail})
}

func (c *Ctx) Violated() bool { return c.violated }

// Abort ends the shard after the current case: a stalled workload leaves goroutines behind that would run into the next case.
func (c *Ctx) Abort() { c.res.Abort = true }

func (c *Ctx) Logf(f string, a ...any) {
	if c.Verbose {
		fmt.Fprintf(os.Stderr, f+"\n", a...)
	}
}

// CaseSeed derives the PRNG seed of generated case i.
func CaseSeed(prop string, seed uint64, i int) uint64 {
	return ref.Mix(ref.Mix(seed, ref.Hash64(prop)), uint64(i))
}

// RunCase runs one generated case, turning an escaping panic of the harness or
// of mux into a violation (engines recover the panics they expect themselves).
func (e *Engine) RunCase(res *Result, tier string, seed uint64, i int, verbose bool) {
	c := &Ctx{R: ref.NewR(CaseSeed(e.ID, seed, i)), Prop: e.ID, Tier: tier, Seed: seed, Case: i, res: res, Verbose: verbose}
	res.Cases++
	mon.SetCaseSalt(CaseSeed(e.ID, seed, i))
	defer func() {
		if p := recover(); p != nil {
			c.Violate(fmt.Sprintf("panic escaped the case: %v", p), string(debug.Stack()))
		}
	}()
	e.Run(c)
	for n := mon.SiblingRouters.Swap(0); n > 0; n-- {
		c.Class("router_built_between_hostile_siblings")
	}
	if i%4 == 0 && !c.Violated() {
		crossFeatureProbe(c)
	}
}

// Process-wide state every property leans on, probed after one case in four whatever the engine: the package-level
// method tables are what they were before the first router existed, and after a little traffic of the other kinds
// (a recovered panic, a router served through a group, the group's not-found path) the context pool still hands
// out distinct, empty contexts - otherwise two overlapping requests would share route and parameters.
var methodTablesAtStart = fmt.Sprint(mux.Methods(), mux.AnyMethods())

func crossFeatureProbe(c *Ctx) {
	if got := fmt.Sprint(mux.Methods(), mux.AnyMethods()); got != methodTablesAtStart {
		c.Violate("the package-level method tables changed during the case (state shared by every router of the process)", map[string]any{"at_start": methodTablesAtStart, "now": got})
		return
	}
	c20Traffic(c.R)
	a, b := types.NewContext(), types.NewContext()
	c.Class("cross_feature_probe")
	if a == b || a.Count() != 0 || b.Count() != 0 || a.Path != "" || a.RouterName() != "" || a.Node() != nil || b.Node() != nil {
		c.Violate(fmt.Sprintf("after the case plus a recovered panic and group traffic the context pool hands out the same or a non-empty context (same=%v count=%d/%d router=%q): a request context was returned to the pool twice or not reset, overlapping requests would share route and parameters", a == b, a.Count(), b.Count(), a.RouterName()), nil)
		return
	}
	a.Destroy()
	b.Destroy()
}

func (e *Engine) RunDirected(res *Result, tier string, seed uint64, d Directed, verbose bool) {
	c := &Ctx{R: ref.NewR(CaseSeed(e.ID, 0, 0)), Prop: e.ID, Tier: tier, Seed: seed, Case: -1, Directed: d.ID, res: res, Verbose: verbose}
	mon.SetCaseSalt(CaseSeed(e.ID, seed, len(d.ID))) // directed cases run in both kinds of container, depending on the seed
	defer func() {
		if p := recover(); p != nil {
			c.Violate(fmt.Sprintf("panic escaped the directed case: %v", p), string(debug.Stack()))
		}
	}()
	d.Run(c)
}

// ---- shard result files ----

func (r *Result) WriteFiles(base string) error {
	b, err := json.Marshal(r)
	if err != nil {
		return err
	}
	if err := os.WriteFile(base+".json", b, 0o644); err != nil {
		return err
	}
	buf := make([]byte, 8*len(r.distinct))
	i := 0
	for h := range r.distinct {
		binary.LittleEndian.PutUint64(buf[i:], h)
		i += 8
	}
	return os.WriteFile(base+".hashes", buf, 0o644)
}

func (r *Result) MergeFiles(base string) error {
	b, err := os.ReadFile(base + ".json")
	if err != nil {
		return err
	}
	var o Result
	if err := json.Unmarshal(b, &o); err != nil {
		return err
	}
	r.Cases += o.Cases
	r.Evaluations += o.Evaluations
	for k, v := range o.Classes {
		r.Classes[k] += v
	}
	for k, v := range o.Events {
		r.Events[k] += v
	}
	for _, s := range o.Samples {
		m, _ := s.(map[string]any)
		cl, _ := m["class"].(string)
		if r.sampleSeen[cl] < 2 {
			r.sampleSeen[cl]++
			r.Samples = append(r.Samples, s)
		}
	}
	r.Violations = append(r.Violations, o.Violations...)
	for k, v := range o.Extra {
		if _, ok := r.Extra[k]; !ok {
			r.Extra[k] = v
		}
	}
	hb, err := os.ReadFile(base + ".hashes")
	if err != nil {
		return err
	}
	for i := 0; i+8 <= len(hb); i += 8 {
		r.distinct[binary.LittleEndian.Uint64(hb[i:])] = struct{}{}
	}
	return nil
}

func (r *Result) Distinct() int { return len(r.distinct) }

func sortedKeys(m map[string]int64) []string {
	ks := make([]string, 0, len(m))
	for k := range m {
		ks = append(ks, k)
	}
	sort.Strings(ks)
	return ks
}

func (r *Result) Summary() string {
	var b strings.Builder
	fmt.Fprintf(&b, "cases=%d evaluations=%d distinct_nontrivial=%d violations=%d\n", r.Cases, r.Evaluations, len(r.distinct), len(r.Violations))
	for _, k := range sortedKeys(r.Classes) {
		fmt.Fprintf(&b, "  class %-40s %d\n", k, r.Classes[k])
	}
	for _, k := range sortedKeys(r.Events) {
		fmt.Fprintf(&b, "  event %-40s %d\n", k, r.Events[k])
	}
	return b.String()
}
