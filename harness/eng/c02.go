package eng

import (
	"fmt"
	"strings"

	"github.com/issue9/mux/v9"
	"github.com/issue9/mux/v9/types"

	"verifharness/gen"
	"verifharness/mon"
	"verifharness/ref"
)

type muxMW = types.Middleware[*mon.Hnd]

// addOnlyRouter registers pats in the given order; returns the router and the accepted patterns.
type addOnly struct {
	r        *mux.Router[*mon.Hnd]
	env      *mon.Env
	accepted []string
	hnd      map[string]*mon.Hnd
	rs       *ref.Resolver
}

func newAddOnly(order []string, ics gen.ICSet) *addOnly {
	rejR := ref.NewR(uint64(len(order))*7919 + ref.Hash64(strings.Join(order, "|")))
	env := mon.NewEnv()
	env.RecordMW = false
	a := &addOnly{env: env, r: env.NewRouter("r", icOptions(ics)...), hnd: map[string]*mon.Hnd{}}
	for i, p := range order {
		h := env.NewHnd(mon.KRoute, p)
		if ok, _ := tryHandle(a.r, p, h, []string{"GET"}); ok {
			a.accepted = append(a.accepted, p)
			a.hnd[p] = h
		}
		if i%3 == 2 {
			// a registration that is refused for its methods (reserved / unknown / duplicate) in between: the router is
			// still one "whose routes were only ever added", and the refused pattern - it shares a prefix with a real
			// route and would split its node - must leave no trace in the resolution
			q := gen.Hostile.Derive(rejR, p)
			bad := ref.Pick(rejR, [][]string{{"OPTIONS"}, {"GET", "BOGUS"}, {"HEAD"}, {"PUT", "PUT"}})
			if ok, _ := tryHandle(a.r, q, env.NewHnd(mon.KRoute, q), bad); ok {
				if len(bad) == 2 && bad[0] == bad[1] { // a repeated method may be accepted (C17): then it is a real route
					a.accepted = append(a.accepted, q)
					a.hnd[q] = nil
				}
			}
		}
	}
	a.rs = &ref.Resolver{Pats: parseAll(a.accepted, ics.Funcs), IC: ics.Funcs}
	return a
}

// checkResolution compares one dispatch with the reference resolver's admissible set.
func checkResolution(c *Ctx, a *addOnly, path string, ctxInfo func() any) (nontrivial bool) {
	outs := a.rs.Resolve(path)
	abandoned := a.rs.Abandoned
	o := mon.Do(a.r, mon.Req{Method: "GET", Path: path})
	c.Eval()
	fail := func(msg string) {
		adm := []string{}
		for _, x := range outs {
			adm = append(adm, a.rs.Pats[x.Pat].Src+" "+fmtParams(x.Params))
		}
		c.Violate(msg, map[string]any{"path": path, "table": a.accepted, "observed": obsBrief(o), "admissible": adm, "context": ctxInfo()})
	}
	switch {
	case o.Panicked:
		fail(fmt.Sprintf("panic while resolving: %v", o.Panic))
	case o.NilHandler:
		fail("nil handler dispatched")
	case o.Status == 404 || o.NodeNil:
		c.Class("observed_404")
		if len(outs) != 0 {
			fail("router answered 404 but the documented procedure finds a route")
		}
	default:
		c.Class("observed_route")
		if len(outs) == 0 {
			fail("router found a route where the documented procedure finds none")
			break
		}
		key := ref.OutcomeKey(o.NodePattern, o.Params)
		ok := false
		for _, x := range outs {
			if x.Key(a.rs.Pats) == key {
				ok = true
				break
			}
		}
		if !ok {
			fail("route/params are not among the admissible outcomes of the documented procedure")
		} else if h, known := a.hnd[o.NodePattern]; o.H == nil || (known && h != nil && o.H.Base != h) {
			fail("handler is not the one registered for the winning pattern")
		}
	}
	if len(outs) > 1 {
		c.Class("several_admissible_outcomes")
	}
	whole := 0
	for i := range a.rs.Pats {
		if a.rs.Pats[i].Matches(path, a.rs.IC) {
			whole++
		}
	}
	if abandoned > 0 {
		c.Class("abandoned_alternative_after_capture")
	}
	if whole >= 2 {
		c.Class("several_patterns_match_whole_path")
	}
	return abandoned > 0 || whole >= 2
}

func runC02(c *Ctx) {
	r := c.R
	ics := gen.ICSets[r.Intn(len(gen.ICSets))]
	n := r.Range(2, 25)
	table := gen.Table(r, n)
	c.Class("icset_" + ics.Name)
	orders := 3
	var routers []*addOnly
	for k := 0; k < orders; k++ {
		ord := append([]string(nil), table...)
		if k > 0 {
			ref.Shuffle(r, ord)
		}
		routers = append(routers, newAddOnly(ord, ics))
	}
	fan := false
	for _, a := range routers {
		if hasFan(a.accepted) {
			fan = true
		}
	}
	if fan {
		c.Class("table_with_5plus_literal_siblings")
	}
	pats := routers[0].rs.Pats
	for i := 0; i < 40; i++ {
		path := gen.Path(r, pats)
		if path == "" || path == "*" {
			continue
		}
		for k, a := range routers {
			k := k
			if checkResolution(c, a, path, func() any { return map[string]any{"icset": ics.Name, "order": k} }) {
				c.Nontrivial(fmt.Sprintf("%v|%s", a.accepted, path))
			}
			if c.Violated() {
				return
			}
		}
		if c.WantSample("resolution") && i == 7 {
			outs := routers[0].rs.Resolve(path)
			adm := []string{}
			for _, x := range outs {
				adm = append(adm, pats[x.Pat].Src+" "+fmtParams(x.Params))
			}
			c.Sample("resolution", map[string]any{"table": routers[0].accepted, "icset": ics.Name, "path": path, "admissible": adm})
		}
	}
}

// hasFan reports whether >=5 patterns are literal siblings under one parent
// (approximation used for evidence only: same prefix, distinct next byte).
func hasFan(pats []string) bool {
	for _, p := range pats {
		for cut := 0; cut <= len(p); cut++ {
			prefix := p[:cut]
			if cut > 0 && (p[cut-1] == '{' || inToken(p, cut)) {
				continue
			}
			next := map[byte]bool{}
			for _, q := range pats {
				if len(q) > cut && q[:cut] == prefix && q[cut] != '{' {
					next[q[cut]] = true
				}
			}
			if len(next) >= 5 {
				return true
			}
		}
	}
	return false
}

func inToken(p string, i int) bool {
	depth := 0
	for j := 0; j < i && j < len(p); j++ {
		if p[j] == '{' {
			depth++
		} else if p[j] == '}' {
			depth--
		}
	}
	return depth > 0
}

func c02Directed() []Directed {
	mk := func(id string, ics gen.ICSet, table []string, path string) Directed {
		return Directed{ID: id, Run: func(c *Ctx) {
			a := newAddOnly(table, ics)
			checkResolution(c, a, path, func() any { return id })
		}}
	}
	std := gen.ICSets[1]
	none := gen.ICSets[0]
	return []Directed{
		// README examples
		mk("readme-priority-literal", none, []string{"/posts/{id}.html", `/posts/{id:\d+}.html`, "/posts/1.html"}, "/posts/1.html"),
		mk("readme-priority-regexp", none, []string{"/posts/{id}.html", `/posts/{id:\d+}.html`, "/posts/1.html"}, "/posts/11.html"),
		mk("readme-priority-named", none, []string{"/posts/{id}.html", `/posts/{id:\d+}.html`, "/posts/1.html"}, "/posts/index.html"),
		mk("readme-no-widening", std, []string{"/posts/{id}-{page:digit}.html"}, "/posts/1-1-1.html"),
		mk("readme-no-widening-ok", std, []string{"/posts/{id}-{page:digit}.html"}, "/posts/1-1.html"),
		// regression inputs of defects found on the pinned tree
		mk("backtrack-stale-param", none, []string{`/users/{id}/{page:\d+}`, "/users/{id}/{action}/log"}, "/users/5/7/log"),
		mk("regexp-suffix-unescaped", none, []string{`/pages/{id:\d+}.html`}, "/pages/5xhtml"),
		mk("suffix-overlapping-occurrence", std, []string{"/f/{p:any}aa"}, "/f/aaa"),
		// greedy regexp vs. "shortest": outside the generated family (DESIGN C02)
		mk("greedy-regexp-digits", none, []string{`/g/{o:\d*}12`}, "/g/1212"),
		mk("greedy-regexp-dotplus", none, []string{`/f/{p:.+}.html`}, "/f/a.html.html"),
		mk("greedy-regexp-class", none, []string{`/h/{w:[a-z]+}b`}, "/h/abcb"),
	}
}

func init() {
	Register(&Engine{
		ID:       "C02",
		Anchors:  []string{"node.go:matchChildren", "segment.go:Segment.Match", "node.go:addSegment", "node.go:splitNode", "node.go:buildIndexes", "segment.go:longestPrefix"},
		Cases:    func(t string) int { return map[string]int{"quick": 12000, "thorough": 800000}[t] },
		Run:      runC02,
		Directed: c02Directed,
		Rule: "case = add-only table of 2-25 generated patterns (hostile pools, literal fans, three interceptor sets) registered in 3 orders x 40 generated paths; " +
			"evaluation = one dispatch compared with the reference resolver's admissible set; non-trivial (distinct by table+path) = >=2 live patterns match the whole path or the reference abandoned an alternative after a capture",
		Floors: func(t string) map[string]int64 {
			if t == "quick" {
				return map[string]int64{"abandoned_alternative_after_capture": 300, "several_patterns_match_whole_path": 300, "table_with_5plus_literal_siblings": 20, "distinct_nontrivial": 500}
			}
			return map[string]int64{"abandoned_alternative_after_capture": 20000, "several_patterns_match_whole_path": 20000, "table_with_5plus_literal_siblings": 1000, "distinct_nontrivial": 20000}
		},
		Assume: []string{
			"regexp rules are drawn from the unambiguous family (class repetition followed by a byte outside the class); greedy cases are directed cases only",
			"paths \"\" and \"*\" are excluded here (server-wide OPTIONS target; covered by C04/C05)",
			"the reference resolver (ref/resolve.go) is the executable reading of the README rule",
		},
	})
}
