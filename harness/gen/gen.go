// Package gen holds the seeded generators: hostile pattern pools, tables,
// paths. It does not import mux.
package gen

import (
	"strings"
	"unicode/utf8"

	"verifharness/ref"
)

// ICSet names an interceptor configuration; Funcs is the reference side, the
// engines build the matching mux options from the same names.
type ICSet struct {
	Name  string
	Funcs ref.Interceptors
}

func EvenLen(s string) bool { return len(s)%2 == 0 }
func UpFirst(s string) bool { return s != "" && s[0] >= 'A' && s[0] <= 'Z' }

var ICSets = []ICSet{
	{"none", ref.Interceptors{}},
	{"std", ref.Interceptors{"digit": ref.IsDigits, "any": ref.IsAny, "word": ref.IsWord}},
	{"custom", ref.Interceptors{"digit": ref.IsDigits, "even": EvenLen, "up": UpFirst, `\d+`: ref.IsDigits}},
	// the same three names as "std", but the engines register mux's own option constructors
	// (WithDigitInterceptor / WithWordInterceptor / WithAnyInterceptor): their documented meaning is the reference side
	{"builtin", ref.Interceptors{"digit": ref.IsDigits, "any": ref.IsAny, "word": ref.IsWord}},
}

// TokSpec is a parameter token of the pool. Class (regexp family only) says
// which bytes the class repetition can consume: the literal following such a
// token must start with a byte outside it (see DESIGN C02).
type TokSpec struct {
	Text  string
	Name  string
	Rule  string
	Class func(byte) bool
}

func isDigit(b byte) bool { return b >= '0' && b <= '9' }
func isUpper(b byte) bool { return b >= 'A' && b <= 'Z' }
func isLower(b byte) bool { return b >= 'a' && b <= 'z' }
func isWordB(b byte) bool { return isDigit(b) || isUpper(b) || isLower(b) || b == '_' }

var Tokens = []TokSpec{
	{"{id}", "id", "", nil},
	{"{idx}", "idx", "", nil},
	{"{-y}", "y", "", nil},
	{"{name}", "name", "", nil},
	{"{n:digit}", "n", "digit", nil},
	{"{m:any}", "m", "any", nil},
	{"{w:word}", "w", "word", nil},
	{"{-k:digit}", "k", "digit", nil},
	{`{d:\d+}`, "d", `\d+`, isDigit},
	{`{-e:\d+}`, "e", `\d+`, isDigit},
	{`{o:\d*}`, "o", `\d*`, isDigit},
	{"{u:[A-Z]+}", "u", "[A-Z]+", isUpper},
	{"{l:[a-z]+}", "l", "[a-z]+", isLower},
	{`{v:\w+}`, "v", `\w+`, isWordB},
	{"{c:even}", "c", "even", nil},
	{"{p:up}", "p", "up", nil},
	// regexps with a top-level alternation or an inline flag (alternatives with distinct first bytes: the accepted text stays unique)
	{"{t:img|video}", "t", "img|video", nil},
	{"{-t2:a|bc}", "t2", "a|bc", nil},
	{"{f:(?i)abc}", "f", "(?i)abc", nil},
}

// Literals is deliberately small and self-overlapping.
var Literals = []string{
	"/", "/a", "/ab", "/abc", "a", "aa", "b", "//", ".", ".html", "-", "/x/", "/a/", "1", "12", "+", "(", "[", "é", "世/",
	"/users/", "/log", "/author", "/abd", "x", "_",
	"%2B", "%23", "%", // text that looks like a percent-escape is text: patterns are compared with the decoded path, and siblings may part company inside it
	"|", "|a", "^", "$", // bytes that mean something inside a regexp: literal text after a regexp parameter is compiled into the expression
}

// FanBytes are first bytes for literal sibling fans (>=5 literal children
// switch the router to its first-byte index).
var FanBytes = []string{"a", "b", "c", "d", "e", "f", "g", "h", "1", "2", "-", ".", "é", "z"}

// CJKFan: characters that share their first two UTF-8 bytes (E4 B8).
var CJKFan = []string{"中", "丰", "丽", "为", "主", "串", "临"}

// Pool is a set of literals and parameter tokens patterns are drawn from.
type Pool struct {
	Tokens   []TokSpec
	Literals []string
	FanBytes []string
}

// Hostile is the full pool (C01, C02, C05...).
var Hostile = &Pool{Tokens: Tokens, Literals: Literals, FanBytes: FanBytes}

// Simple is the pool of the history engines (C03/C04/C17...): literals carry
// no digit and every token accepts short digit strings, so that witness paths
// built with digit values decompose uniquely (DESIGN C03).
var Simple = &Pool{
	Tokens: []TokSpec{Tokens[0], Tokens[1], Tokens[2], Tokens[3], Tokens[4], Tokens[5], Tokens[6], Tokens[7], Tokens[8], Tokens[9], Tokens[10], Tokens[13]},
	Literals: []string{"/", "/a", "/ab", "/abc", "a", "aa", "b", "//", ".", ".html", "-", "/x/", "/a/", "+", "(", "é", "/users/", "/log", "/author", "/abd", "x", "|", "^", "%+B", "%+("},
	FanBytes: []string{"a", "b", "c", "d", "e", "f", "g", "h", "-", ".", "é", "z", "/"},
}

func Pattern(r *ref.R) string          { return Hostile.Pattern(r) }
func Derive(r *ref.R, b string) string { return Hostile.Derive(r, b) }
func Table(r *ref.R, n int) []string   { return Hostile.Table(r, n) }

// Pattern generates one well-formed pattern from the pool.
func (pl *Pool) Pattern(r *ref.R) string {
	Literals, Tokens := pl.Literals, pl.Tokens
	var b strings.Builder
	used := map[string]bool{}
	ntok := []int{0, 1, 1, 1, 2, 2, 3}[r.Intn(7)]
	var lastClass func(byte) bool
	lit := func(must bool) {
		if !must && r.Chance(1, 6) {
			return
		}
		for try := 0; try < 20; try++ {
			l := ref.Pick(r, Literals)
			if lastClass != nil && lastClass(l[0]) {
				continue
			}
			b.WriteString(l)
			lastClass = nil
			if r.Chance(1, 4) { // a second literal chunk: longer shared prefixes
				b.WriteString(ref.Pick(r, Literals))
			}
			return
		}
		b.WriteString("/")
		lastClass = nil
	}
	if ntok == 0 || r.Chance(5, 6) {
		lit(ntok == 0)
	}
	for i := 0; i < ntok; i++ {
		var t TokSpec
		for try := 0; ; try++ {
			t = ref.Pick(r, Tokens)
			if !used[t.Name] {
				break
			}
		}
		used[t.Name] = true
		b.WriteString(t.Text)
		lastClass = t.Class
		if i < ntok-1 {
			lit(true)
			if lastClass != nil { // lit fell through without writing (cannot happen) - keep well-formed
				b.WriteString("/")
				lastClass = nil
			}
		} else if r.Chance(3, 5) {
			lit(true)
		}
	}
	if b.Len() == 0 {
		return "/"
	}
	return b.String()
}

// Derive makes a pattern that shares a prefix with base: cut base at a random
// position outside any token and append new material.
func (pl *Pool) Derive(r *ref.R, base string) string {
	Tokens := pl.Tokens
	cuts := []int{}
	depth := 0
	for i := 0; i <= len(base); i++ {
		if i < len(base) && base[i] == '{' {
			depth++
		}
		if depth == 0 && i > 0 && (i == len(base) || utf8.RuneStart(base[i])) {
			cuts = append(cuts, i)
		}
		if i < len(base) && base[i] == '}' {
			depth--
		}
	}
	if len(cuts) == 0 {
		return pl.Pattern(r)
	}
	cut := ref.Pick(r, cuts)
	head := base[:cut]
	tail := pl.Pattern(r)
	// keep the regexp family rule and no-adjacent-tokens rule at the seam
	if strings.HasSuffix(head, "}") {
		if strings.HasPrefix(tail, "{") {
			tail = "/" + tail
		}
		// literal after a class-repetition token must start outside the class
		for _, t := range Tokens {
			if t.Class != nil && strings.HasSuffix(head, t.Text) && t.Class(tail[0]) {
				tail = "/" + tail
				break
			}
		}
	}
	// no duplicate names
	p := head + tail
	if _, cls := ref.Parse(p, nil); cls != ref.SynOK {
		return base + "/z"
	}
	return p
}

// Table generates a set of distinct well-formed patterns that share prefixes,
// split each other and compete; with fans of >=5 literal siblings.
func (pl *Pool) Table(r *ref.R, n int) []string {
	Tokens, FanBytes := pl.Tokens, pl.FanBytes
	seen := map[string]bool{}
	var out []string
	add := func(p string) {
		if p != "" && !seen[p] {
			seen[p] = true
			out = append(out, p)
		}
	}
	for len(out) < n {
		switch {
		case len(out) > 0 && r.Chance(1, 6):
			// a straight extension of an existing pattern: the shorter one ends where the longer one goes on
			base := ref.Pick(r, out)
			ext := base + ref.Pick(r, []string{"/", "/x", ".html", "-", "/x/"})
			if r.Bool() {
				if t := ref.Pick(r, Tokens); !strings.Contains(base, "{"+t.Name) && !strings.Contains(base, "{-"+t.Name) {
					ext += t.Text
				}
			}
			if _, cls := ref.Parse(ext, nil); cls == ref.SynOK {
				add(ext)
			}
		case len(out) > 0 && r.Chance(1, 2):
			add(pl.Derive(r, ref.Pick(r, out)))
		case r.Chance(1, 14):
			// a wide fan below a parameter: ten or more children under one parameter node, then a competitor of another
			// kind at the same position that shares one of the children (it is registered after them)
			prefix := ref.Pick(r, []string{"/u/", "/", "w", "/a/b/"})
			ts := append([]TokSpec(nil), Tokens...)
			ref.Shuffle(r, ts)
			a, b := ts[0], ts[1]
			tail := ref.Pick(r, []string{"/", "-", "/k/"})
			if a.Class != nil && a.Class(tail[0]) || b.Class != nil && b.Class(tail[0]) {
				tail = "/"
			}
			kids := []string{"avatar", "blog", "cfg", "docs", "edit", "feed", "gist", "home", "inbox", "jobs", "keys", "logs", "mail", "news"}
			ref.Shuffle(r, kids)
			k := r.Range(10, 13)
			for _, kid := range kids[:k] {
				add(prefix + a.Text + tail + kid)
			}
			add(prefix + b.Text + tail + ref.Pick(r, kids[:k]))
			if r.Bool() {
				add(prefix + b.Text + tail + kids[k])
			}
		case r.Chance(1, 5):
			// a fan: several literal siblings under one parent plus parameter siblings
			prefix := ""
			if len(out) > 0 && r.Chance(2, 3) {
				base := ref.Pick(r, out)
				if i := strings.IndexByte(base, '{'); i >= 0 {
					base = base[:i]
				}
				prefix = base
			} else if r.Chance(1, 2) {
				prefix = ref.Pick(r, []string{"/", "/s/", "/a/", "f"})
			}
			k := r.Range(4, 8)
			fanPrefix := prefix
			bs := append([]string(nil), FanBytes...)
			if r.Chance(1, 6) {
				// siblings that differ inside a multi-byte character: the tree splits literal text at byte granularity,
				// so their common parent ends in the first two bytes of the character
				bs = append([]string(nil), CJKFan...)
				k = r.Range(5, 7)
				if r.Bool() {
					// the same behind a parameter: text after a parameter belongs to the parameter's node (for a regexp it is
					// compiled into the expression), and these siblings part company inside a character
					t := ref.Pick(r, Tokens)
					fanPrefix = prefix + t.Text + ref.Pick(r, []string{"", "-", "/"})
				}
			}
			ref.Shuffle(r, bs)
			for _, fb := range bs[:k] {
				add(fanPrefix + fb + ref.Pick(r, []string{"", "x", "/", "/q", "y"}))
			}
			if r.Chance(2, 3) {
				add(prefix + ref.Pick(r, Tokens).Text)
			}
			if r.Chance(1, 2) {
				add(prefix + ref.Pick(r, Tokens).Text + ref.Pick(r, []string{"/", "/x", ".html", "-"}))
			}
		default:
			add(pl.Pattern(r))
		}
	}
	return out
}

// Value produces a value for a parameter token: mostly accepted by its
// constraint, sometimes tricky on purpose.
func Value(r *ref.R, t *ref.Tok, nextLit string) string {
	if r.Chance(1, 4) {
		switch r.Intn(10) {
		case 7:
			return ref.Pick(r, []string{"丰", "ı", "乡", "Ł"}) // runes whose low byte is an ASCII digit or letter
		case 8:
			return "7" + ref.Pick(r, []string{"丰", "ı", "乡", "Ł"})
		case 9:
			return ref.Pick(r, []string{"丰", "乡"}) + "a1"
		case 0:
			return ""
		case 1:
			return nextLit + "7"
		case 2:
			return "7" + nextLit
		case 3:
			return "a/b"
		case 4:
			return nextLit + nextLit
		case 5:
			return "é"
		default:
			return "7/8/9"
		}
	}
	switch t.Rule {
	case "", "any":
		return ref.Pick(r, []string{"7", "abc", "42", "A1", "x-y", "q.r", "aa", "a"})
	case "digit", `\d+`, `\d*`:
		return ref.Pick(r, []string{"7", "42", "0", "123", "12"})
	case "word", `\w+`:
		return ref.Pick(r, []string{"ab1", "7", "Zz", "aa", "a"})
	case "[A-Z]+":
		return ref.Pick(r, []string{"AB", "Q", "ZZZ"})
	case "[a-z]+":
		return ref.Pick(r, []string{"xy", "q", "aa", "abc"})
	case "even":
		return ref.Pick(r, []string{"ab", "", "abcd", "77"})
	case "up":
		return ref.Pick(r, []string{"Ab", "Q", "Zz9"})
	case "img|video":
		return ref.Pick(r, []string{"img", "video", "vid", "imgvideo"})
	case "a|bc":
		return ref.Pick(r, []string{"a", "bc", "b", "abc"})
	case "(?i)abc":
		return ref.Pick(r, []string{"abc", "ABC", "aBc", "ab"})
	}
	return "7"
}

// Instantiate builds a path from a pattern with generated values.
func Instantiate(r *ref.R, p ref.Pattern) string {
	var b strings.Builder
	for i := range p.Toks {
		t := &p.Toks[i]
		if t.Kind == ref.KLit {
			b.WriteString(t.Lit)
			continue
		}
		next := ""
		if i+1 < len(p.Toks) {
			next = p.Toks[i+1].Lit
		}
		b.WriteString(Value(r, t, next))
	}
	return b.String()
}

// Mutate perturbs a path: truncate, extend, duplicate a piece, flip a byte.
func Mutate(r *ref.R, s string) string {
	switch r.Intn(7) {
	case 0:
		if len(s) > 0 {
			return s[:r.Intn(len(s))]
		}
	case 1:
		return s + ref.Pick(r, Literals)
	case 2:
		if len(s) > 1 {
			i := r.Intn(len(s))
			j := i + r.Intn(len(s)-i)
			return s[:j] + s[i:j] + s[j:]
		}
	case 3:
		if len(s) > 0 {
			b := []byte(s)
			b[r.Intn(len(b))] = byte(r.U64())
			return string(b)
		}
	case 4:
		if len(s) > 0 {
			i := r.Intn(len(s))
			return s[:i] + s[i+1:]
		}
	case 5:
		return s + "/"
	case 6:
		if len(s) > 0 {
			i := r.Intn(len(s) + 1)
			return s[:i] + ref.Pick(r, []string{"7", "/", "a", "-", ".", "12"}) + s[i:]
		}
	}
	return s + "7"
}

// Path generates one request path aimed at a table.
func Path(r *ref.R, pats []ref.Pattern) string {
	if len(pats) == 0 || r.Chance(1, 12) {
		return string(r.Bytes(r.Range(1, 12)))
	}
	s := Instantiate(r, ref.Pick(r, pats))
	for r.Chance(1, 3) {
		s = Mutate(r, s)
	}
	return s
}

var Methods = []string{"GET", "POST", "DELETE", "PUT", "PATCH", "CONNECT", "TRACE", "HEAD", "OPTIONS"}
var AnyMethods = []string{"GET", "POST", "DELETE", "PUT", "PATCH", "CONNECT"}

// SimpleFor filters the Simple pool for an interceptor set: only tokens whose
// constraint accepts short digit strings under that set (named, intercepted
// rules, class regexps) remain.
func SimpleFor(ics ICSet) *Pool {
	p := &Pool{Literals: Simple.Literals, FanBytes: Simple.FanBytes}
	for _, t := range Simple.Tokens {
		if t.Rule == "" || t.Class != nil || ics.Funcs[t.Rule] != nil {
			p.Tokens = append(p.Tokens, t)
		}
	}
	return p
}

// Malform turns a well-formed pattern into one with exactly one documented
// syntax error; the class is known by construction.
func Malform(r *ref.R, p string) (string, string) {
	if r.Chance(1, 8) {
		// scale: a long pattern (11-18 parameters) whose only defect is a name repeated among the late ones
		n := r.Range(11, 18)
		i := r.Range(10, n-1)
		j := r.Range(0, i-1)
		if r.Bool() {
			j = r.Range(8, i-1) // both occurrences far from the start
		}
		var b strings.Builder
		b.WriteString(p)
		for k := 0; k < n; k++ {
			name := "p" + string(rune('a'+k))
			if k == i {
				name = "p" + string(rune('a'+j))
			}
			b.WriteString(ref.Pick(r, []string{"/", "/s/", "-", "."}))
			b.WriteString(ref.Pick(r, []string{"{" + name + "}", "{-" + name + "}", "{" + name + ":\\d+}"}))
		}
		if _, cls := ref.Parse(p, nil); cls == ref.SynOK && !strings.Contains(p, "{p") && (p == "" || p[len(p)-1] != '}') {
			return b.String(), "duplicate-name"
		}
	}
	pp, cls := ref.Parse(p, nil)
	var toks []int
	if cls == ref.SynOK {
		for i, t := range pp.Toks {
			if t.Kind != ref.KLit {
				toks = append(toks, i)
			}
		}
	}
	if len(toks) == 0 {
		// no parameter to break: append a broken one
		switch r.Intn(3) {
		case 0:
			return p + "/{}", "empty-name"
		case 1:
			return p + "/{a}{b}", "adjacent"
		default:
			return p + "/{z:[}", "bad-regexp"
		}
	}
	render := func(mod func(i int, t ref.Tok) string) string {
		var b strings.Builder
		for i, t := range pp.Toks {
			if t.Kind == ref.KLit {
				b.WriteString(t.Lit)
			} else {
				b.WriteString(mod(i, t))
			}
		}
		return b.String()
	}
	target := ref.Pick(r, toks)
	switch r.Intn(4) {
	case 0: // the same name again later (after a literal), possibly with another rule or the '-' flag
		dup := pp.Toks[target]
		again := ref.Pick(r, []string{"{" + dup.Name + "}", "{-" + dup.Name + "}", "{" + dup.Name + ":\\d+}"})
		return render(func(i int, t ref.Tok) string { return t.Text }) + ref.Pick(r, []string{"/", "/x/", "-", "."}) + again, "duplicate-name"
	case 1: // name removed
		return render(func(i int, t ref.Tok) string {
			if i != target {
				return t.Text
			}
			if t.Rule != "" {
				return "{:" + t.Rule + "}"
			}
			return "{}"
		}), "empty-name"
	case 2: // a second parameter directly behind it
		return render(func(i int, t ref.Tok) string {
			if i != target {
				return t.Text
			}
			return t.Text + ref.Pick(r, []string{"{zz}", "{zz:\\d+}", "{-zz}"})
		}), "adjacent"
	default: // rule replaced by an uncompilable regexp
		return render(func(i int, t ref.Tok) string {
			if i != target {
				return t.Text
			}
			return "{" + t.Name + ":" + ref.Pick(r, []string{"[", "(", "*", "x**", "(?P<x"}) + "}"
		}), "bad-regexp"
	}
}

// Cut picks a position at which to cut a pattern into prefix and rest. Positions
// next to a parameter token (right behind it, one or two bytes later, right
// before it, inside it) are preferred: that is where prefix cleaning and facade
// concatenation have their corner cases.
func Cut(r *ref.R, p string) int {
	if len(p) == 0 {
		return 0
	}
	if r.Chance(1, 2) {
		var near []int
		for i := 0; i < len(p); i++ {
			switch p[i] {
			case '}':
				for d := 1; d <= 3; d++ {
					if i+d <= len(p) {
						near = append(near, i+d)
					}
				}
			case '{':
				near = append(near, i, i+1)
			}
		}
		if len(near) > 0 {
			return ref.Pick(r, near)
		}
	}
	return r.Intn(len(p) + 1)
}
